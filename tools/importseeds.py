#!/usr/bin/env python3
"""Copies evaluated seeded changes from the scratch area into /verif/seeded/<id>/ and writes
the detection matrix (development tool).

  tools/importseeds.py <scratch-root> [<scratch-root> ...]

A scratch seed directory holds patch.diff, seeded_demo_test.go (optional for hand-written
mutants), meta.json and one or more eval*.json files written by tools/seedeval.py. Only seeds
confirmed by us (applies, builds, suite passes, demonstration fails with / passes without the
change) are kept as `confirmed`; the others are listed in seeded/REJECTED.md with the reason."""
import glob
import json
import os
import shutil
import sys

ROOT = os.path.dirname(os.path.dirname(os.path.abspath(__file__)))
OUT = os.path.join(ROOT, "seeded")


def load(p):
    try:
        return json.load(open(p))
    except Exception:
        return None


def main():
    os.makedirs(OUT, exist_ok=True)
    rows, rejected = [], []
    for root in sys.argv[1:]:
        for meta_path in sorted(glob.glob(os.path.join(root, "**", "meta.json"), recursive=True)):
            d = os.path.dirname(meta_path)
            if not os.path.exists(os.path.join(d, "patch.diff")):
                continue
            meta = load(meta_path) or {}
            evals = {os.path.basename(p): load(p) for p in sorted(glob.glob(os.path.join(d, "eval*.json")))}
            evals = {k: v for k, v in evals.items() if v}
            if not evals:
                continue
            pid = meta.get("property") or next(iter(evals.values())).get("property")
            rel = os.path.relpath(d, root).replace("/SEED/", "-").replace("/", "-")
            name = rel if rel.startswith(("C", "M")) else "%s-%s" % (pid, rel)
            rounds = {"seed": "r1", "seed2": "r2", "seed3": "r3", "seed4": "r4", "seed5": "r5", "seed6": "r6", "seed7": "r7", "seed8": "r8", "seed9": "r9", "seed10": "r10", "seed11": "r11"}
            base = os.path.basename(root.rstrip("/"))
            if base in rounds:
                name = rounds[base] + "-" + name
            any_eval = next(iter(evals.values()))
            has_demo = os.path.exists(os.path.join(d, "seeded_demo_test.go"))
            ok = any_eval.get("applies") and any_eval.get("builds") and any_eval.get("suite_passes")
            if has_demo:
                ok = ok and any_eval.get("demo_fails_with_change") and any_eval.get("demo_passes_without_change")
            if not ok:
                why = "does not apply" if not any_eval.get("applies") else "does not build" if not any_eval.get("builds") else \
                    "the repository's own suite fails with it" if not any_eval.get("suite_passes") else "demonstration not confirmed in both directions"
                caught = sorted(set(c for e in evals.values() for c in (e.get("caught_by") or [])))
                rejected.append((name, pid, meta.get("summary", ""), why, caught))
                continue
            dst = os.path.join(OUT, name)
            os.makedirs(dst, exist_ok=True)
            shutil.copyfile(os.path.join(d, "patch.diff"), os.path.join(dst, "patch.diff"))
            if has_demo:
                shutil.copyfile(os.path.join(d, "seeded_demo_test.go"), os.path.join(dst, "seeded_demo_test.go"))
            runs = {}
            for k, e in evals.items():
                if k in ("eval-final.json", "eval-final2.json") and ("eval-final3.json" in evals):
                    continue  # superseded full passes
                runs[k] = {"checks": {c: ({"exit": v["exit"], "wall_s": v["wall_s"], "output_head": [l[:300] for l in v["head"][:4]]} if v["exit"] != 0 else {"exit": 0, "wall_s": v["wall_s"]}) for c, v in (e.get("checks") or {}).items()},
                           "caught_by": e.get("caught_by"), "inconclusive": e.get("inconclusive")}
            m = {
                "id": name,
                "breaks_property": pid,
                "origin": meta.get("origin", "fresh sub-agent given only the property record and a scratch worktree"),
                "summary": meta.get("summary"),
                "needs_to_manifest": meta.get("needs_to_manifest"),
                "files_changed": meta.get("files_changed"),
                "confirmed_by_us": {
                    "applies_to_repo_head": True, "builds": True, "repository_suite_passes_twice": True,
                    "demonstration_fails_with_change": bool(any_eval.get("demo_fails_with_change")) if has_demo else None,
                    "demonstration_passes_without_change": bool(any_eval.get("demo_passes_without_change")) if has_demo else None,
                    "how": "tools/seedeval.py: scratch worktree of /repo HEAD, git apply, go build, go test -vet=off -count=1 ./... twice, demonstration with and without the change, then ./check <ID> <tier> with VERIF_REPO pointing at the worktree",
                },
                "runs": runs,
            }
            json.dump(m, open(os.path.join(dst, "meta.json"), "w"), indent=1)
            rows.append(m)
    # matrix: every kept change, those imported in earlier sessions included
    have = {m["id"] for m in rows}
    for mp in sorted(glob.glob(os.path.join(OUT, "*", "meta.json"))):
        m = load(mp)
        if m and m.get("id") and m["id"] not in have and "runs" in m and m.get("breaks_property"):
            rows.append(m)
    lines = ["# Seeded changes and which checks catch them", "",
             "`base` = the checks as they were when the change was delivered (own check, quick tier only); `final` = the checks as committed: the property's own quick check and every other quick check that an earlier full pass (all twenty checks, `eval-final2/3.json` in each seed's meta) reported as catching the change, re-run at the final commit (`eval-final4.json`); round-6 changes: all twenty; round-7 changes: `eval-final.json` (own check plus the checks that caught the change in a full pass made for every change the own check had missed at delivery).",
             "", "| seeded change | breaks | what it is | base: own check | final: caught by |", "|---|---|---|---|---|"]
    for m in sorted(rows, key=lambda x: x["id"]):
        base = m["runs"].get("eval-base.json")
        final = m["runs"].get("eval-session3.json") or m["runs"].get("eval-final4.json") or m["runs"].get("eval-final3.json") or m["runs"].get("eval-final2.json") or m["runs"].get("eval-final.json") or m["runs"].get("eval.json") or m["runs"].get("eval-new.json")
        own = m["breaks_property"] + "/quick"
        b = "-" if not base else ("caught" if own in (base.get("caught_by") or []) else "missed")
        f = "-" if not final else (", ".join(c.replace("/quick", "").replace("/thorough", " (thorough)") for c in (final.get("caught_by") or [])) or "**none**")
        lines.append("| %s | %s | %s | %s | %s |" % (m["id"], m["breaks_property"], (m.get("summary") or "").replace("|", "/").replace("\n", " ")[:160], b, f))
    open(os.path.join(OUT, "MATRIX.md"), "w").write("\n".join(lines) + "\n")
    if rejected:
        rp = os.path.join(OUT, "REJECTED.md")
        rl = open(rp).read().rstrip("\n").split("\n") if os.path.exists(rp) else ["# Seeded changes that were not kept", "", "| change | property | what | why not kept | checks that reported it anyway |", "|---|---|---|---|---|"]
        for name, pid, summ, why, caught in rejected:
            row = "| %s | %s | %s | %s | %s |" % (name, pid, (summ or "").replace("|", "/")[:140], why, ", ".join(caught))
            if not any(l.startswith("| %s |" % name) for l in rl):
                rl.append(row)
        open(rp, "w").write("\n".join(rl) + "\n")
    print("kept", len(rows), "rejected", len(rejected))


if __name__ == "__main__":
    main()
