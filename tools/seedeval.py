#!/usr/bin/env python3
"""Evaluate one seeded change against the checks (development tool).

  tools/seedeval.py <seed-dir> <property-id> [--all] [--also=ID,ID] [--thorough] [--keep]

<seed-dir> holds patch.diff, seeded_demo_test.go and meta.json. The change is applied
to a scratch worktree of /repo's HEAD (never to /repo itself); we confirm that it
builds, that the repository's suite still passes, that the demonstration fails with
the change and passes without it, and then run the check of <property-id> (quick, and
thorough with --thorough when quick stays green) - with --all also every other quick
check - against the worktree through VERIF_REPO. A JSON summary is printed and written
to <seed-dir>/eval.json. The worktree is removed afterwards unless --keep is given."""
import json
import os
import shutil
import subprocess
import sys
import time

ENV = dict(os.environ, GOFLAGS="-mod=mod", GOPROXY="off", GOSUMDB="off", GOTOOLCHAIN="local")
HOME = os.path.dirname(os.path.dirname(os.path.abspath(__file__)))  # the /verif tree this script belongs to (may be a snapshot)
ALL = ["C%02d" % i for i in range(1, 21)]


def sh(cmd, cwd=None, env=None, timeout=3600):
    r = subprocess.run(cmd, cwd=cwd, env=env or ENV, shell=isinstance(cmd, str), stdout=subprocess.PIPE, stderr=subprocess.STDOUT, text=True, timeout=timeout)
    return r.returncode, r.stdout


def main():
    args = [a for a in sys.argv[1:] if not a.startswith("--")]
    flags = [a for a in sys.argv[1:] if a.startswith("--")]
    seed, pid = os.path.abspath(args[0]), args[1]
    name = pid + "-" + os.path.basename(seed.rstrip("/")) + "-%d" % os.getpid()
    wt = "/tmp/try/" + name
    os.makedirs("/tmp/try", exist_ok=True)
    res = {"seed": seed, "property": pid, "worktree": wt}
    sh(["git", "-C", "/repo", "worktree", "add", "-q", "--detach", wt, "HEAD"])
    try:
        rc, out = sh(["git", "apply", os.path.join(seed, "patch.diff")], cwd=wt)
        res["applies"] = rc == 0
        if rc != 0:
            res["apply_output"] = out[-500:]
            return res
        rc, out = sh("go build ./... && go vet -vet=off ./... 2>/dev/null; go build ./...", cwd=wt)
        res["builds"] = rc == 0
        if rc != 0:
            res["build_output"] = out[-800:]
            return res
        ok = True
        for _ in range(2):
            rc, out = sh("go test -vet=off -count=1 ./...", cwd=wt, env=dict(ENV, GOFLAGS=""))
            ok = ok and rc == 0
            if rc != 0:
                res["suite_output"] = out[-1500:]
        res["suite_passes"] = ok
        demo = os.path.join(seed, "seeded_demo_test.go")
        if os.path.exists(demo):
            shutil.copyfile(demo, os.path.join(wt, "seeded_demo_test.go"))
            rc, out = sh("go test -vet=off -count=1 -run 'TestSeededDemo' ./...", cwd=wt, env=dict(ENV, GOFLAGS=""))
            res["demo_fails_with_change"] = rc != 0
            res["demo_output"] = out[-600:]
            # (no `git stash`: the stash is shared by all worktrees of a repository)
            sh(["git", "apply", "-R", os.path.join(seed, "patch.diff")], cwd=wt)
            rc, out = sh("go test -vet=off -count=1 -run 'TestSeededDemo' ./...", cwd=wt, env=dict(ENV, GOFLAGS=""))
            res["demo_passes_without_change"] = rc == 0
            rc2, out2 = sh(["git", "apply", os.path.join(seed, "patch.diff")], cwd=wt)
            res["reapplied"] = rc2 == 0
        # the tree the checks run against must hold exactly this change
        rc, out = sh(["git", "diff"], cwd=wt)
        res["tree_holds_exactly_the_patch"] = out.strip() == open(os.path.join(seed, "patch.diff")).read().strip() or sh(["git", "apply", "-R", "--check", os.path.join(seed, "patch.diff")], cwd=wt)[0] == 0
        if os.path.exists(os.path.join(wt, "seeded_demo_test.go")):
            os.remove(os.path.join(wt, "seeded_demo_test.go"))
        # the checks
        envc = dict(os.environ, VERIF_REPO=wt)
        res["checks"] = {}

        def run(p, tier):
            t0 = time.time()
            rc, out = sh([os.path.join(HOME, "check"), p, tier], cwd=HOME, env=envc, timeout=7200)
            detail = [l for l in out.splitlines() if l.strip()][:14]
            res["checks"]["%s/%s" % (p, tier)] = {"exit": rc, "wall_s": round(time.time() - t0, 1), "head": detail if rc != 0 else detail[-1:]}
            return rc

        rc = run(pid, "quick")
        if rc == 0 and "--thorough" in flags:
            run(pid, "thorough")
        if "--all" in flags:
            for p in ALL:
                if p != pid:
                    run(p, "quick")
        for fl in flags:  # --also=C02,C09: these quick checks as well
            if fl.startswith("--also="):
                for p in fl[7:].split(","):
                    if p and p != pid and ("%s/quick" % p) not in res["checks"]:
                        run(p, "quick")
        res["caught_by"] = sorted(k for k, v in res["checks"].items() if v["exit"] == 1)
        res["inconclusive"] = sorted(k for k, v in res["checks"].items() if v["exit"] not in (0, 1))
        return res
    finally:
        if "--keep" not in flags:
            sh(["git", "-C", "/repo", "worktree", "remove", "--force", wt])
            # the alt build dir of this worktree
            import hashlib
            h = hashlib.sha1(wt.encode()).hexdigest()[:8]
            shutil.rmtree(os.path.join(HOME, ".build", "alt", h), ignore_errors=True)
        outname = "eval.json"
        for fl in flags:
            if fl.startswith("--out="):
                outname = fl[6:]
        with open(os.path.join(seed, outname), "w") as f:
            json.dump(res, f, indent=1)
        print(json.dumps({k: v for k, v in res.items() if k not in ("demo_output",)}, indent=1)[:6000])


if __name__ == "__main__":
    main()
