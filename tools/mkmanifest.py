#!/usr/bin/env python3
"""Regenerates /verif/MANIFEST.json from the table below (run after adding a check)."""
import json
import os
import subprocess

ROOT = os.path.dirname(os.path.dirname(os.path.abspath(__file__)))

# id -> (technique, level text, level note, design ref)
CHECKS = {
    "C01": ("property-based differential testing against a reference evaluator (rapid, typed expression generator)",
            "Generated expressions over the whole operator table, bindings incl. failing ones; Eval/EvalBool/one-shot Eval compared with an independent reference evaluator on value, error class (errors.Is on sentinels) and the exact sequence of fetches and custom-operator calls. Exploration: thousands of distinct non-trivial programs per run, no claim beyond them.",
            "Trusted: the reference evaluator and operator model in harness/model (written from README/property text). and/or operands are boolean-typed or always failing.", "§3 C01"),
    "C02": ("property-based metamorphic + differential testing over all 16 optimization subsets, exhaustive over the boolean variables of small programs (rapid) + coverage-guided search over the same generator (thorough)",
            "Each generated expression x cost map is compiled under all 16 subsets, each subset also expressed a second way (sparse map / option function / ;;;; directives); outcomes compared pairwise, with the reference evaluator R/R_eager on the source tree, and with R on each configuration's own Dump; for programs with 1..5 boolean variables all their assignments are run through all 16 programs (every path). Exploration.",
            "Trusted: reference evaluator, Dump reader. All variables bound; custom operators pure (no stateful operator under reordering).", "§3 C02"),
    "C03": ("property-based testing with instrumented fetcher/operators: effect-trace equality against the reference evaluator run on the dumped program (rapid)",
            "The ordered log of every VariableFetcher.Get and every registered-operator call (arguments, result/error) made by Eval is compared with the trace of left-to-right short-circuit evaluation of the tree read back from Dump, for all 16 subsets. Exploration.",
            "Trusted: reference evaluator, Dump reader. The second-leaf fetch of a fast operator after a deciding first leaf is optional.", "§3 C03"),
    "C04": ("property-based testing: TryEval vs Eval over enumerated completions of the unavailable variables (rapid)",
            "Generated expression x subset x availability split; a definite TryEval answer is compared with the engine's Eval under every completion from small per-type domains (full product when <= 64); full availability: TryEval = Eval; larger availability set: same answer. Exploration.",
            "Completions are a structured finite sample of an infinite value space. Fetcher reports availability truthfully.", "§3 C04"),
    "C05": ("property-based differential testing of TryEval against an independent Kleene evaluator (rapid)",
            "Generated non-failing expression (repaired, not filtered) x 16 subsets x availability split: whenever Kleene evaluation is definite TryEval must return exactly that value, otherwise DNE with nil error (TryEvalBool: ErrDNE); the same through contexts the library builds, for one-variable infix programs, and for programs whose names are registered after compilation. Exploration.",
            "Trusted: Kleene evaluator K and operator model in harness/model.", "§3 C05"),
    "C06": ("grammar-based fuzzing (rapid token soup, mutation of valid programs, untyped programs, exhaustive truncation) + Go native coverage-guided fuzzing; validity-predicate oracle",
            "Every generated text is compiled under a drawn notation/option set; Compile must return exactly one of program/error without panicking; each compiled program runs Eval, TryEval, Dump, DumpTable under hostile bindings; a watchdog turns non-termination into a replayable violation and LOOP event positions must strictly increase. Thorough adds 90 s of native fuzzing on 16 workers. Exploration: absence of panics is never established.",
            "'Never hangs' = returns within 120 s per case (cases take microseconds) plus the monotone-position invariant. Inputs bounded to 64 KiB / nesting depth 50 000; Dump only on programs below 10 000 characters.", "§3 C06"),
    "C17": ("property-based testing against a map-based set oracle + metamorphic symmetry relation + exhaustive boundary grid (rapid)",
            "in/overlap on generated list pairs concentrated around the 100-element scan/hash switch, planted single common elements at list ends, empty literal / typed empty lists, sets, mismatches; literals and variables; four option sets. The (|A|,|B|) grid over {0,1,49,50,51,99,100,101}^2 is enumerated exhaustively on every run. Exploration.",
            "Trusted: the map-based model. An empty []string value is the untyped empty list (the engine cannot tell a literal from a variable).", "§3 C17"),
    "C18": ("property-based testing against an independent operator model + model-free algebraic laws + exhaustive small-pool sweep (rapid)",
            "Single-operator expressions for every arithmetic/logic/comparison name and alias, counts 0..6, int64 extremes, wrong types at any position, literals and variables, four option sets; model through R plus laws evaluated on the engine itself; exhaustive operator x count x pool^n sweep. Exploration (value space sampled from structured pools).",
            "eq/ne on lists/sets/nil/floats: totality only. Ill-typed and/or under FastEvaluation may take both leaves (either outcome accepted). One open known finding (C18-andor-nonbool-before-last).", "§3 C18"),
    "C19": ("property-based testing: order-preservation relation over generated pairs against component-wise comparison and hand-written civil-date arithmetic (rapid)",
            "Version pairs at carry boundaries / differing component counts / every valid length, date pairs formatted by the harness in default and custom layouts (incl. zone offsets) through every operator name; encodings compared with a positional model and days-from-civil arithmetic, order checked through the engine's own comparison operators; fixed rejection list. Exploration.",
            "Domain: components 0..9999, component count <= valid length; years 1..9999; five layouts the harness can format and parse by hand.", "§3 C19"),
    "C20": ("property-based differential testing of the generator's reported result against the reference evaluators R / K (rapid)",
            "For generated (seed, level, type, options, variable maps) the returned text is read by the harness's own reader and evaluated by R or K; Res must match, the reference must not fail, and the engine's Compile/Eval/TryEval must agree under all 16 subsets. Exploration. Levels 0..12 plus, in one case out of 25, 13..129. Two open known findings (level 0 returns a bare atom; very high levels return more nodes than a program may have).",
            "Variables are passed one map per variable in sorted order so that a run is a function of the seed.", "§3 C20"),
    "C11": ("stateful property-based testing of registration histories with an independent normalisation oracle (rapid)",
            "Generated histories (pre-populated key maps with boundary keys, GetOrRegisterKey / RegVarAndOp / repeated requests in drawn order, undefined-variable mode) with an invariant after every step (injective, no reassignment), then every variable read back positionally through NewCtxFromVars against the harness's own normalisation of raw values of every documented type. Exploration.",
            "RegVarAndOp iterates a Go map, so its key assignment order is not a function of the seed (the oracle does not depend on it). Names <= 126 per case.", "§3 C11"),
    "C13": ("property-based round-trip testing Compile(Dump(e)) with hostile literals + Go native fuzzing of literal contents (rapid)",
            "Generated programs (prefix and infix sources) with layout-sensitive string literals/constants/identifiers x option subsets x event mode: the dump must recompile in prefix notation, reproduce itself exactly, and compute the same outcomes on four bindings; identical in event/debug mode. Exploration.",
            "Named constants restricted to values a literal can denote (no double quote, no typed empty list). Root folded to a bare scalar: set aside as the property says.", "§3 C13"),
    "C14": ("property-based metamorphic testing (re-layout / formatter) against an independent lexer + Go native fuzzing of the formatter (rapid)",
            "Generated programs re-laid-out with random Unicode white space, comments and directive look-alikes must compile to the identical program; leading directives must be honoured; IndentByParentheses applied 1-3 times must preserve the exact token/comment sequence (independent lexer) on programs and on arbitrary token soups, and compile to the same program. Exploration.",
            "Trusted: the independent lexer in harness/model (token rules from the property text). Comments compared modulo trailing white space.", "§3 C14"),
    "C15": ("property-based round-trip testing tree -> infix text -> program against the prefix compilation + exhaustive operator-pair sweep (rapid)",
            "Generated trees rendered to infix by an independent precedence-table renderer (minimal / redundant parentheses, tight !x, extra white space) must parse back to the same tree, give the same Dump/DumpTable as the prefix form and the same outcomes; all 16x16 operator pairs in both association shapes, inside calls and if, ! against every operator, and 8^3 triples are enumerated on every run. Exploration.",
            "Symbolic names only in binary (or unary !) position; a ! directly under ! or a tighter operator is parenthesised by the renderer (the precedence table does not define the bare form).", "§3 C15"),
    "C16": ("property-based metamorphic testing of reordering laws over pairs of cost maps (rapid)",
            "Generated wide and/or trees over pairwise distinct variables with many equal-cost operands, integer cost maps, a name X: permutation-only, stability, monotonicity under X+=delta, separation under X:=1e12, and evaluation order = dumped order, for all 8 settings of the other optimizations. Exploration.",
            "Integer-valued finite costs (exact in float64). Trusted: Dump reader.", "§3 C16"),
    "C07": ("stateful property-based testing of sequential and concurrent call histories under the Go race detector, with per-call isolated reference results and a before/after program snapshot (rapid)",
            "Generated histories over 1-3 shared programs (with and without event mode): 10-60 sequential calls (none in one history out of four), then 2-16 goroutines (sometimes 130-320) x 10-200 calls behind a barrier, GOMAXPROCS 1/2/4/all drawn per history and the harness's fetchers and operators yielding the processor at drawn points (so that whole evaluations run between two fetches of another one), some calls carrying a cancelled context; each call must return what a fresh unshared compilation returns; an error once returned keeps its text; the flat program (read-only hook) must be bit-identical afterwards; the whole binary runs with -race, halting on the first report with the case already on disk. Exploration: interleavings are sampled by the scheduler, not enumerated.",
            "The race detector is happens-before based: an unsynchronised write to shared program state is reported on any schedule in which both accesses occur. Custom operators used here are pure and lock-free.", "§3 C07"),
    "C08": ("stateful property-based testing of Compile/CopyConfig/ExtendConf histories with deep config snapshots, repeated and concurrent compilation under the Go race detector (rapid)",
            "Generated histories over one shared Config and several sources with valid, malformed or no directives: the caller's config is deep-compared after every Compile, the same source must always yield the same verdict/Dump/DumpTable/outcomes (again, reversed, on copies, with a nil config before and after nil-config compilations that carry directives, concurrently from 2-8 goroutines under a drawn GOMAXPROCS), mutations of copies never reach the source and vice versa; a fixed set of canary programs compiled before the first and after the last case of every shard must give identical results (whole-run history). Exploration.",
            "Mutable state of a Config = its five maps and the stateless slice (list-valued constants are shared by reference; not asserted).", "§3 C08"),
    "C09": ("constructed boundary-value generation with an exhaustive parameter grid + random sampling around the limits; differential against the reference evaluator and the harness's own size accounting (rapid)",
            "Programs built to sit on the 127-operand, 16383/16384-node (event doubling), 32767-node and 8/16 stack-class boundaries, x option subsets x event modes (none, ReportEvent, Debug, both, keys present and false) x placement below an if: Compile must accept every program the harness's size model puts within the limits and never panic; a program the model puts beyond a limit is rejected, or compiles to something smaller that is itself within the limits; every compiled program (size and widest operator read through the hook) is within the limits, has a sufficient stack bound and evaluates (Eval and TryEval) to R's value. The grid is enumerated (reduced in quick, full in thorough). Exploration over the constructed family.",
            "Trusted: the harness's flattening model (and/or directly inside the same operator is merged) and node accounting as the definition of 'within the limits'; agreement with the compiled program's size (hook) is recorded, not demanded.", "§3 C09"),
    "C10": ("property-based testing with call-logging custom operators: compile-time vs run-time invocation accounting, repeated evaluation against the reference on the dumped program, folding-soundness predicate (rapid)",
            "Constant-dense generated trees with declared-stateless, undeclared, stateful and failing operators x 16 subsets x 1-5 evaluations: Compile never fails, invokes only declared-stateless operators; each evaluation performs exactly the calls R performs on the dumped tree with state threaded through (a baked-in result shows from the 2nd evaluation); folding is checked against the stated rule as a validity predicate. Exploration.",
            "Trusted: reference evaluator, Dump reader.", "§3 C10"),
    "C12": ("property-based testing of the event stream against the reference evaluator's list of operator applications, with retaining / buffered / scribbling consumers (rapid)",
            "Generated case x subsets x {Eval, TryEval} x {ReportEvent, Debug, both} x three consumer behaviours: results, effects and Dump equal the event-free run; OP_EXEC events compared after the evaluation with R's applications on the dumped tree (names, arguments as at call time, results); retained events equal receipt-time copies; LOOP positions increase and (Eval) the Stack snapshots follow the operand-stack discipline from one LOOP event to the next, judged from public event data only. Exploration.",
            "The final fold of a non-fast and/or with no absorbing operand may or may not be reported (decided by a jump).", "§3 C12"),
}

NOT_YET = {}


def main():
    props = [json.loads(l) for l in open(os.path.join(ROOT, "properties.jsonl"))]
    hooks_commits = []
    try:
        out = subprocess.run(["git", "-C", "/repo", "log", "--format=%H %s"], capture_output=True, text=True).stdout
        for line in out.splitlines():
            h, s = line.split(" ", 1)
            if s.startswith("verif hook:") or s.startswith("hook:"):
                hooks_commits.append(h)
    except Exception:
        pass
    man = {
        "version": 1,
        "setup_cmd": "./check setup",
        "hooks": {
            "guard": "verif",
            "enable": "go build tag: every check builds /repo with `-tags verif` (harness/go.mod replaces github.com/onheap/eval with /repo)",
            "baseline_off_cmd": "cd /repo && go test -vet=off -count=1 ./...",
            "source_commits": hooks_commits,
            "add_only": True,
        },
        "engines": [{
            "name": "rapid-harness",
            "path": "harness/",
            "serves_properties": sorted(CHECKS),
            "kind_free_text": "Go module: pgregory.net/rapid v1.3.0 property-based tests (typed generators, stateful histories, shrinking), Go native fuzzing for byte-level inputs, Go race detector as monitor; oracles = reference evaluator R, Kleene evaluator K, independent operator model, independent lexer, Dump reader, round trips and metamorphic relations",
        }],
        "checks": [],
        "notes": "Driver: ./check <ID> <quick|thorough>; ./check replay <ID> <file>. VERIF_SEED selects the rapid seeds (seed*1000003+shard+1). Exit 2 = inconclusive (build failure, worker death, case-count shortfall). Known findings: known_findings.json.",
        "not_applicable": [],
    }
    for p in props:
        pid = p["id"]
        if pid in CHECKS:
            tech, text, note, ref = CHECKS[pid]
            man["checks"].append({
                "property_id": pid,
                "quick_cmd": "./check %s quick" % pid,
                "thorough_cmd": "./check %s thorough" % pid,
                "evidence_file": "/verif/evidence/%s.json" % pid,
                "replay_cmd_template": "./check replay %s {path}" % pid,
                "engine": "rapid-harness",
                "level_claimed": {"category": "exploration", "text": text, "design_ref": "DESIGN.md " + ref},
                "level_note": note,
                "technique": tech,
            })
        else:
            man["not_applicable"].append({"property_id": pid, "reason": NOT_YET.get(pid, "check not built yet in this session (planned in DESIGN.md §3); not claimed until it runs")})
    with open(os.path.join(ROOT, "MANIFEST.json"), "w") as f:
        json.dump(man, f, indent=1)
        f.write("\n")


if __name__ == "__main__":
    main()
