#!/usr/bin/env python3
"""Regenerates /verif/MANIFEST.json from the table below (run after adding a check)."""
import json
import os
import subprocess

ROOT = os.path.dirname(os.path.dirname(os.path.abspath(__file__)))

# id -> (technique, level text, level note, design ref)
CHECKS = {
    "C01": ("property-based differential testing against a reference evaluator (rapid, typed expression generator)",
            "Generated expressions over the whole operator table, bindings incl. failing ones; Eval/EvalBool/one-shot Eval compared with an independent reference evaluator on value, error class (errors.Is on sentinels) and the exact sequence of fetches and custom-operator calls. Exploration: thousands of distinct non-trivial programs per run, no claim beyond them.",
            "Trusted: the reference evaluator and operator model in harness/model (written from README/property text). and/or operands are boolean-typed or always failing.", "§3 C01"),
}

NOT_YET = {}


def main():
    props = [json.loads(l) for l in open(os.path.join(ROOT, "properties.jsonl"))]
    hooks_commits = []
    try:
        out = subprocess.run(["git", "-C", "/repo", "log", "--format=%H %s"], capture_output=True, text=True).stdout
        for line in out.splitlines():
            h, s = line.split(" ", 1)
            if s.startswith("verif hook:") or s.startswith("hook:"):
                hooks_commits.append(h)
    except Exception:
        pass
    man = {
        "version": 1,
        "setup_cmd": "./check setup",
        "hooks": {
            "guard": "verif",
            "enable": "go build tag: every check builds /repo with `-tags verif` (harness/go.mod replaces github.com/onheap/eval with /repo)",
            "baseline_off_cmd": "cd /repo && go test -vet=off -count=1 ./...",
            "source_commits": hooks_commits,
            "add_only": True,
        },
        "engines": [{
            "name": "rapid-harness",
            "path": "harness/",
            "serves_properties": sorted(CHECKS),
            "kind_free_text": "Go module: pgregory.net/rapid v1.3.0 property-based tests (typed generators, stateful histories, shrinking), Go native fuzzing for byte-level inputs, Go race detector as monitor; oracles = reference evaluator R, Kleene evaluator K, independent operator model, independent lexer, Dump reader, round trips and metamorphic relations",
        }],
        "checks": [],
        "notes": "Driver: ./check <ID> <quick|thorough>; ./check replay <ID> <file>. VERIF_SEED selects the rapid seeds (seed*1000003+shard+1). Exit 2 = inconclusive (build failure, worker death, case-count shortfall). Known findings: known_findings.json.",
        "not_applicable": [],
    }
    for p in props:
        pid = p["id"]
        if pid in CHECKS:
            tech, text, note, ref = CHECKS[pid]
            man["checks"].append({
                "property_id": pid,
                "quick_cmd": "./check %s quick" % pid,
                "thorough_cmd": "./check %s thorough" % pid,
                "evidence_file": "/verif/evidence/%s.json" % pid,
                "replay_cmd_template": "./check replay %s {path}" % pid,
                "engine": "rapid-harness",
                "level_claimed": {"category": "exploration", "text": text, "design_ref": "DESIGN.md " + ref},
                "level_note": note,
                "technique": tech,
            })
        else:
            man["not_applicable"].append({"property_id": pid, "reason": NOT_YET.get(pid, "check not built yet in this session (planned in DESIGN.md §3); not claimed until it runs")})
    with open(os.path.join(ROOT, "MANIFEST.json"), "w") as f:
        json.dump(man, f, indent=1)
        f.write("\n")


if __name__ == "__main__":
    main()
