package props

import (
	"fmt"
	"math"
	"sort"
	"strings"

	"pgregory.net/rapid"

	m "verifharness/model"
)

// ---------------------------------------------------------------- pools

var intPool = []int64{0, 1, -1, 2, 3, 7, 10, -5, 100, 9999, 10000, math.MaxInt64, math.MinInt64, math.MaxInt64 - 1, math.MinInt64 + 1,
	math.MinInt32, math.MaxInt32, 1 << 32, 1<<53 + 1, -(1 << 53) - 1} // (narrower widths: a 32-bit or float64 shortcut shows at these)

// plain strings: no character that needs care in Dump output or layout.
var strPool = []string{"a", "", "b", "ab", "a b", "1.2.3", "1.2", "2.0.0", "1.x", "10000.1", "0.0.1", "9999.9999.9999",
	"2021-01-01", "2021-01-01 11:58:56", "2024-02-29", "2023-02-29", "29/02/2024", "nope",
	// texts that coincide with words the engine uses internally, or that print like values of another type
	"fi", "if", "DNE", "1", "2", "0", "true", "eventNode"}

var strElemPool = []string{"a", "b", "ab", "", "a b", "c"}

var layoutPool = []string{m.LayoutDate, m.LayoutDatetime, m.LayoutDMY, "zzz"}

func pickW(t *rapid.T, label string, weights ...int) int {
	total := 0
	for _, w := range weights {
		total += w
	}
	r := rapid.IntRange(0, total-1).Draw(t, label)
	for i, w := range weights {
		if r < w {
			return i
		}
		r -= w
	}
	return len(weights) - 1
}

func genInt(t *rapid.T, label string) int64 {
	if rapid.Bool().Draw(t, label+"_pool") {
		return rapid.SampledFrom(intPool).Draw(t, label)
	}
	return rapid.Int64Range(-20, 20).Draw(t, label)
}

func genVal(t *rapid.T, ty m.Ty, label string) interface{} {
	switch ty {
	case m.TInt:
		return genInt(t, label)
	case m.TBool:
		return rapid.Bool().Draw(t, label)
	case m.TStr:
		return rapid.SampledFrom(strPool).Draw(t, label)
	case m.TIntList:
		hi := 5
		if rapid.IntRange(0, 11).Draw(t, label+"_long") == 0 { // now and then a list beyond any small-size special case
			hi = 40
		}
		l := rapid.SliceOfN(rapid.Int64Range(-3, 6), 0, hi).Draw(t, label)
		if l == nil {
			l = []int64{}
		}
		return l
	case m.TStrList:
		hi := 5
		if rapid.IntRange(0, 11).Draw(t, label+"_long") == 0 {
			hi = 40
		}
		l := rapid.SliceOfN(rapid.SampledFrom(strElemPool), 0, hi).Draw(t, label)
		if l == nil {
			l = []string{}
		}
		return l
	}
	panic("genVal")
}

// ---------------------------------------------------------------- names

var varPrefix = map[m.Ty]string{m.TInt: "i", m.TBool: "b", m.TStr: "s", m.TIntList: "li", m.TStrList: "ls"}
var varCount = map[m.Ty]int{m.TInt: 4, m.TBool: 4, m.TStr: 2, m.TIntList: 2, m.TStrList: 2}
var constName = map[m.Ty]string{m.TInt: "Ki", m.TBool: "Kb", m.TStr: "Ks", m.TIntList: "Kli", m.TStrList: "Kls"}

// bad variables: name -> (type, mode)
var badVars = map[string]struct {
	Ty   m.Ty
	Mode int
}{"fi": {m.TInt, 1}, "ui": {m.TInt, 2}, "fb": {m.TBool, 1}, "ub": {m.TBool, 2}}

func tyOfVar(name string) m.Ty {
	if b, ok := badVars[name]; ok {
		return b.Ty
	}
	for ty, p := range varPrefix {
		if len(name) == len(p)+1 && name[:len(p)] == p && name[len(p)] >= '0' && name[len(p)] <= '9' {
			return ty
		}
	}
	panic("tyOfVar " + name)
}

func tyOfConst(name string) m.Ty {
	if name == "KBIG" {
		return m.TIntList
	}
	for ty, n := range constName {
		if n == name {
			return ty
		}
	}
	panic("tyOfConst " + name)
}

// ---------------------------------------------------------------- typed expression generator

type GenCfg struct {
	Depth    int
	MaxArity int
	Failing  bool // inject always-failing sub-expressions
	BadVars  bool // failing / unbound variables may appear
	Custom   bool
	Stateful bool // c_cnt
	Consts   bool // named constants
	Aliases  bool
	BoolW    int  // weight of and/or among boolean operators (default 4)
	VarW     int  // weight of variables among leaves (default 4; literals have 5)
	StrBias  bool // one boolean node in three is a predicate over strings / string lists
}

type G struct {
	t *rapid.T
	GenCfg
	budget int // nodes left; at 0 only leaves are produced
}

// Program generates a whole program of static type ty within the engine's capacity
// limits: at most a few hundred nodes, and no and/or that would exceed 127 operands
// once ReduceNesting has merged nested operators (such programs are legitimately
// rejected by Compile; C09 is the property about them). The second condition is
// met by regenerating with a smaller depth, which is rare (counted by callers if needed).
func (g *G) Program(ty m.Ty) *m.Node {
	for try := 0; ; try++ {
		g.budget = 300
		if Thorough() {
			g.budget = 700
		}
		tree := g.Expr(ty, g.Depth)
		if maxOperands(flattenModel(tree)) <= 127 && maxOperands(tree) <= 127 {
			if rapid.IntRange(0, 4).Draw(g.t, "dup") == 0 {
				g.duplicateOperands(tree)
			}
			return tree
		}
		if try >= 4 {
			return g.Leaf(ty)
		}
		g.Depth = g.Depth/2 + 1
	}
}

func (g *G) alias(names ...string) string {
	if !g.Aliases || len(names) == 1 {
		return names[0]
	}
	return rapid.SampledFrom(names).Draw(g.t, "alias")
}

func (g *G) varName(ty m.Ty) string {
	return varPrefix[ty] + string(rune('0'+rapid.IntRange(0, varCount[ty]-1).Draw(g.t, "var")))
}

func (g *G) Leaf(ty m.Ty) *m.Node {
	cw := 0
	if g.Consts {
		cw = 1
	}
	bw := 0
	if g.BadVars && (ty == m.TInt || ty == m.TBool) {
		bw = 1
	}
	vw := g.VarW
	if vw == 0 {
		vw = 4
	}
	switch pickW(g.t, "leaf", 5, vw, bw, cw) {
	case 0:
		return m.Const(genVal(g.t, ty, "lit"))
	case 1:
		return m.Var(g.varName(ty))
	case 2:
		if ty == m.TInt {
			return m.Var(rapid.SampledFrom([]string{"fi", "ui"}).Draw(g.t, "badvar"))
		}
		return m.Var(rapid.SampledFrom([]string{"fb", "ub"}).Draw(g.t, "badvar"))
	default:
		return m.NamedConst(constName[ty], nil) // value filled in with the universe
	}
}

func (g *G) kids(ty m.Ty, d, lo, hi int) []*m.Node {
	n := rapid.IntRange(lo, hi).Draw(g.t, "arity")
	out := make([]*m.Node, n)
	for i := range out {
		out[i] = g.Expr(ty, d-1)
	}
	return out
}

func (g *G) maxArity() int {
	if g.MaxArity < 2 {
		return 4
	}
	return g.MaxArity
}

// Fail returns an expression that fails whenever it is evaluated.
func (g *G) Fail(ty m.Ty, d int) *m.Node {
	cf, bv := 0, 0
	if g.Custom {
		cf = 2
	}
	if g.BadVars && (ty == m.TInt || ty == m.TBool) {
		bv = 3
	}
	switch pickW(g.t, "failkind", 2, 1, cf, 1, 1, 1, 2, bv, 1) {
	case 0:
		return m.Op(g.alias("div", "/", "mod", "%"), g.Expr(m.TInt, d-1), m.Const(int64(0)))
	case 1:
		return m.Op(g.alias("add", "+", "mul", "*"), g.Expr(m.TInt, d-1), m.Const(rapid.SampledFrom([]string{"str", "1", "2", "0", "true"}).Draw(g.t, "illstr")))
	case 2:
		return m.Op("c_fail", g.kids(m.TInt, d, 0, 2)...)
	case 3:
		return m.Op(g.alias("version", "t_version", "to_version"), m.Const("1.x"))
	case 4:
		return m.If(m.Const(int64(5)), g.Expr(ty, d-1), g.Expr(ty, d-1))
	case 5:
		if rapid.Bool().Draw(g.t, "illtyped") {
			return m.Op(g.alias("not", "!"), m.Const(int64(3)))
		}
		return m.Op(g.alias("gt", ">", "le", "<="), m.Const("a"), g.Expr(m.TInt, d-1))
	case 6: // wrong operand count
		switch rapid.IntRange(0, 4).Draw(g.t, "badcount") {
		case 0:
			return m.Op(g.alias("not", "!"), g.Expr(m.TBool, d-1), g.Expr(m.TBool, d-1))
		case 1:
			return m.Op("between", g.Expr(m.TInt, d-1), g.Expr(m.TInt, d-1))
		case 2:
			return m.Op(g.alias("add", "+", "sub", "-"), g.Expr(m.TInt, d-1))
		case 3:
			return m.Op(g.alias("and", "&", "&&", "or", "|", "||"), g.Expr(m.TBool, d-1))
		default:
			return m.Op(g.alias("ne", "!="), g.kids(m.TInt, d, 3, 3)...)
		}
	case 7:
		if ty == m.TInt {
			return m.Var(rapid.SampledFrom([]string{"fi", "ui"}).Draw(g.t, "badvar"))
		}
		return m.Var(rapid.SampledFrom([]string{"fb", "ub"}).Draw(g.t, "badvar"))
	default: // element type mismatch
		if rapid.Bool().Draw(g.t, "mm") {
			return m.Op("in", g.Expr(m.TInt, d-1), m.Const([]string{"a"}))
		}
		return m.Op("overlap", m.Const([]int64{1, 2}), m.Const([]string{"a"}))
	}
}

// Expr generates an expression of static type ty and depth at most d.
// zeroCallFirst: an expression of type ty that starts (in evaluation order) with a registered
// operator called without operands; nil for list types.
func (g *G) zeroCallFirst(ty m.Ty, d int) *m.Node {
	zero := m.Op("c_sum")
	switch ty {
	case m.TInt:
		if rapid.Bool().Draw(g.t, "zc_alone") {
			return zero
		}
		return m.Op(g.alias("+", "add", "-", "*"), zero, g.Expr(m.TInt, d))
	case m.TStr:
		return m.Op("c_cat")
	case m.TBool:
		first := m.Op(g.alias("=", "!=", "<", ">="), zero, g.Leaf(m.TInt))
		switch rapid.IntRange(0, 2).Draw(g.t, "zc_bool") {
		case 0:
			return first
		case 1:
			return m.Op(g.alias("or", "||", "|"), first, g.Expr(m.TBool, d))
		default:
			return m.Op(g.alias("and", "&&", "&"), first, g.Expr(m.TBool, d))
		}
	}
	return nil
}

func (g *G) Expr(ty m.Ty, d int) *m.Node {
	g.budget--
	if d <= 0 || g.budget <= 0 {
		return g.Leaf(ty)
	}
	cw, fw := 0, 0
	if g.Custom {
		cw = 1
	}
	if g.Failing {
		fw = 1
	}
	iw := 0
	if ty == m.TBool {
		iw = 1
	}
	switch pickW(g.t, "shape", 2, 8, 2, cw, fw, iw, iw) {
	case 5:
		return g.idiom(d, false)
	case 6:
		return g.idiom(d, true)
	case 0:
		return g.Leaf(ty)
	case 2:
		c, a, b := g.Expr(m.TBool, d-1), g.Expr(ty, d-1), g.Expr(ty, d-1)
		if g.Custom && rapid.IntRange(0, 5).Draw(g.t, "zerocallfirst") == 0 {
			// a branch whose first node in evaluation order is a call without operands
			if z := g.zeroCallFirst(ty, d-1); z != nil {
				if rapid.IntRange(0, 2).Draw(g.t, "zerocallbranch") == 0 {
					a = z
				} else {
					b = z
				}
			}
		}
		return m.If(c, a, b)
	case 3:
		return m.Op("c_id", g.Expr(ty, d-1))
	case 4:
		return g.Fail(ty, d)
	}
	maxA := g.maxArity()
	switch ty {
	case m.TInt:
		cs, cc := 0, 0
		if g.Custom {
			cs = 1
		}
		if g.Custom && g.Stateful {
			cc = 1
		}
		switch pickW(g.t, "intop", 3, 2, 2, 1, 1, 1, 1, cs, cc) {
		case 0:
			return m.Op(g.alias("add", "+"), g.kids(m.TInt, d, 2, maxA)...)
		case 1:
			return m.Op(g.alias("sub", "-"), g.kids(m.TInt, d, 2, maxA)...)
		case 2:
			return m.Op(g.alias("mul", "*"), g.kids(m.TInt, d, 2, maxA)...)
		case 3:
			return m.Op(g.alias("div", "/"), g.kids(m.TInt, d, 2, 3)...)
		case 4:
			return m.Op(g.alias("mod", "%"), g.kids(m.TInt, d, 2, 3)...)
		case 5:
			ks := []*m.Node{g.Leaf(m.TStr)}
			if rapid.Bool().Draw(g.t, "vlen") {
				ks = append(ks, m.Const(rapid.SampledFrom([]int64{3, 4, 0, 5}).Draw(g.t, "vl")))
			}
			return m.Op(g.alias("version", "t_version", "to_version"), ks...)
		case 6:
			s := g.Leaf(m.TStr)
			switch rapid.IntRange(0, 3).Draw(g.t, "dateform") {
			case 0:
				return m.Op(g.alias("date", "to_date", "td_date"), s)
			case 1:
				return m.Op(g.alias("datetime", "to_datetime", "td_time"), s)
			case 2:
				return m.Op(g.alias("date", "to_date", "datetime", "to_datetime"), s, m.Const(rapid.SampledFrom(layoutPool).Draw(g.t, "layout")))
			default:
				return m.Op(g.alias("t_time", "t_date"), s, m.Const(rapid.SampledFrom(layoutPool).Draw(g.t, "layout")))
			}
		case 7:
			return m.Op("c_sum", g.kids(m.TInt, d, 0, maxA)...)
		default:
			return m.Op("c_cnt")
		}
	case m.TBool:
		if g.StrBias && rapid.IntRange(0, 2).Draw(g.t, "strpred") == 0 {
			switch rapid.IntRange(0, 3).Draw(g.t, "strpredkind") {
			case 0:
				return m.Op(g.alias("eq", "=", "=="), g.Expr(m.TStr, d-1), g.Expr(m.TStr, d-1))
			case 1:
				return m.Op(g.alias("ne", "!="), g.Expr(m.TStr, d-1), g.Expr(m.TStr, d-1))
			case 2:
				return m.Op("in", g.Expr(m.TStr, d-1), g.Expr(m.TStrList, d-1))
			default:
				return m.Op("overlap", g.Expr(m.TStrList, d-1), g.Expr(m.TStrList, d-1))
			}
		}
		bw := g.BoolW
		if bw == 0 {
			bw = 4
		}
		cn := 0
		if g.Custom {
			cn = 1
		}
		if g.Custom {
			cn = 2
		}
		switch pickW(g.t, "boolop", bw, bw, 1, 2, 2, 1, 1, 1, 1, cn) {
		case 0:
			return m.Op(g.alias("and", "&", "&&"), g.kids(m.TBool, d, 2, maxA)...)
		case 1:
			return m.Op(g.alias("or", "|", "||"), g.kids(m.TBool, d, 2, maxA)...)
		case 2:
			return m.Op(g.alias("not", "!"), g.Expr(m.TBool, d-1))
		case 3:
			return m.Op(g.alias("gt", ">", "lt", "<", "ge", ">=", "le", "<="), g.kids(m.TInt, d, 2, 2)...)
		case 4:
			et := m.Ty(rapid.IntRange(0, 2).Draw(g.t, "eqty"))
			if rapid.IntRange(0, 5).Draw(g.t, "eqmixed") == 0 {
				// two values of different scalar types are values all the same: not equal
				ot := m.Ty((int(et) + 1 + rapid.IntRange(0, 1).Draw(g.t, "eqother")) % 3)
				return m.Op(g.alias("eq", "=", "==", "ne", "!="), g.Expr(et, d-1), g.Expr(ot, d-1))
			}
			if rapid.Bool().Draw(g.t, "ne") {
				return m.Op(g.alias("ne", "!="), g.kids(et, d, 2, 2)...)
			}
			return m.Op(g.alias("eq", "=", "=="), g.kids(et, d, 2, maxA)...)
		case 5:
			return m.Op("between", g.kids(m.TInt, d, 3, 3)...)
		case 6:
			if rapid.Bool().Draw(g.t, "instr") {
				return m.Op("in", g.Expr(m.TStr, d-1), g.Expr(m.TStrList, d-1))
			}
			return m.Op("in", g.Expr(m.TInt, d-1), g.Expr(m.TIntList, d-1))
		case 7:
			lt := m.TIntList
			if rapid.Bool().Draw(g.t, "ovstr") {
				lt = m.TStrList
			}
			return m.Op("overlap", g.Expr(lt, d-1), g.Expr(lt, d-1))
		case 8:
			return m.Op("xor", g.kids(m.TBool, d, 2, maxA)...)
		default:
			switch rapid.IntRange(0, 3).Draw(g.t, "custombool") {
			case 0:
				return m.Op("andn", g.kids(m.TBool, d, 1, 3)...)
			case 1:
				return m.Op("orn", g.kids(m.TBool, d, 1, 3)...)
			}
			return m.Op("c_not", g.Expr(m.TBool, d-1))
		}
	case m.TStr:
		if g.Custom && rapid.Bool().Draw(g.t, "cat") {
			return m.Op("c_cat", g.kids(m.TStr, d, 0, 3)...)
		}
		return g.Leaf(ty)
	default:
		return g.Leaf(ty)
	}
}

// ---------------------------------------------------------------- universe for a tree

// UniverseFor draws values for exactly the names the tree uses (in sorted
// order, after the tree, so that shrinking the tree shrinks the universe) and
// fills in the values of named constants.
func UniverseFor(t *rapid.T, tree *m.Node, collide bool) *Universe {
	u := &Universe{}
	// the tree's own integer literals: a quarter of the integer variables get a value next to one of
	// them (l, l±1: the boundary of a comparison with l) or as far from it as int64 goes (MaxInt64-l+1,
	// MinInt64+l-1 ...: where x+l / x-l wrap around)
	var lits []int64
	tree.Walk(func(x *m.Node) {
		if l, ok := x.Val.(int64); ok && x.Kind == m.KConst && x.Name == "" && len(lits) < 24 {
			lits = append(lits, l)
		}
	})
	// variables that are added to / subtracted from a literal k: half of them sit where x±k wraps around
	offs := map[string][]int64{}
	tree.Walk(func(x *m.Node) {
		if x.Kind != m.KOp || len(x.Kids) != 2 || !(x.Name == "+" || x.Name == "add" || x.Name == "-" || x.Name == "sub") {
			return
		}
		for i := 0; i < 2; i++ {
			if k, ok := x.Kids[1-i].Val.(int64); ok && x.Kids[i].Kind == m.KVar && x.Kids[1-i].Kind == m.KConst && len(offs[x.Kids[i].Name]) < 8 {
				offs[x.Kids[i].Name] = append(offs[x.Kids[i].Name], k)
			}
		}
	})
	// variables folded with constants by an n-ary arithmetic call: half of them hold an end of int64
	ends := map[string]bool{}
	tree.Walk(func(x *m.Node) {
		if x.Kind != m.KOp || len(x.Kids) < 3 {
			return
		}
		switch x.Name {
		case "/", "div", "%", "mod", "*", "mul", "-", "sub", "+", "add":
			for _, k := range x.Kids {
				if k.Kind == m.KVar {
					ends[k.Name] = true
				}
			}
		}
	})
	for _, name := range tree.VarNames() {
		if b, ok := badVars[name]; ok {
			u.Vars = append(u.Vars, VarDecl{Name: name, Ty: b.Ty, Mode: b.Mode})
			continue
		}
		ty := tyOfVar(name)
		val := genVal(t, ty, "v_"+name)
		if ty == m.TInt && ends[name] && rapid.Bool().Draw(t, "end_"+name) {
			val = rapid.SampledFrom([]int64{math.MinInt64, math.MaxInt64, math.MinInt64 + 1, -1, math.MinInt64 / 2}).Draw(t, "endval_"+name)
		} else if ks := offs[name]; ty == m.TInt && len(ks) > 0 && rapid.Bool().Draw(t, "wrap_"+name) {
			k := rapid.SampledFrom(ks).Draw(t, "wrapoff_"+name)
			val = []int64{math.MaxInt64 - k + 1, math.MaxInt64 - k, math.MaxInt64, math.MinInt64 + k - 1, math.MinInt64 + k, math.MinInt64}[rapid.IntRange(0, 5).Draw(t, "wrapform_"+name)]
		} else if ty == m.TInt && len(lits) > 0 && rapid.IntRange(0, 3).Draw(t, "near_"+name) == 0 {
			l := rapid.SampledFrom(lits).Draw(t, "nearlit_"+name)
			val = []int64{l, l - 1, l + 1, math.MaxInt64 - l + 1, math.MaxInt64 - l, math.MinInt64 + l - 1, math.MinInt64 + l, -l}[rapid.IntRange(0, 7).Draw(t, "nearform_"+name)]
		}
		u.Vars = append(u.Vars, VarDecl{Name: name, Ty: ty, Val: m.V{X: val}})
	}
	cn := map[string]bool{}
	tree.Walk(func(x *m.Node) {
		if x.Kind == m.KConst && x.Name != "" {
			cn[x.Name] = true
		}
	})
	names := make([]string, 0, len(cn))
	for n := range cn {
		names = append(names, n)
	}
	sort.Strings(names)
	vals := map[string]interface{}{}
	for _, n := range names {
		ty := tyOfConst(n)
		v := nonEmptyList(genVal(t, ty, "k_"+n))
		vals[n] = v
		u.Consts = append(u.Consts, ConstDecl{Name: n, Val: m.V{X: v}})
	}
	// const > variable: a constant that shares its name with a registered
	// variable wins; the tree then holds a named constant at those places.
	if collide && len(u.Vars) > 0 {
		v := u.Vars[rapid.IntRange(0, len(u.Vars)-1).Draw(t, "collide_var")]
		if v.Mode == 0 {
			cv := nonEmptyList(genVal(t, v.Ty, "collide_val"))
			u.Consts = append(u.Consts, ConstDecl{Name: v.Name, Val: m.V{X: cv}})
			tree.Walk(func(x *m.Node) {
				if x.Kind == m.KVar && x.Name == v.Name {
					x.Kind, x.Val = m.KConst, cv
				}
			})
		}
	}
	tree.Walk(func(x *m.Node) {
		if x.Kind == m.KConst && x.Name != "" && x.Val == nil {
			x.Val = vals[x.Name]
		}
	})
	u.RegMode = rapid.IntRange(0, regModes-1).Draw(t, "regmode")
	u.Decoys = rapid.IntRange(0, 5).Draw(t, "decoys") == 0
	u.KeyBase = rapid.SampledFrom([]int{1, 0, 250, -3, 300, 2, 3}).Draw(t, "keybase")            // (2, 3: the explicit keys leave 1 free and cover "number of names + 1")
	u.KeyStride = rapid.SampledFrom([]int{1, 1, 1, 64, 256, 63, 128, 1024}).Draw(t, "keystride") // (at most 20 variables: keys stay below 32767)
	return u
}

// nonEmptyList: a named constant holding a typed empty list has no source form
// (Dump prints "()", which denotes the empty string list), so constants are
// never empty lists; typed empty lists are exercised through variables.
func nonEmptyList(v interface{}) interface{} {
	switch l := v.(type) {
	case []int64:
		if len(l) == 0 {
			return []int64{4}
		}
	case []string:
		if len(l) == 0 {
			return []string{"z"}
		}
	}
	return v
}

// operatorLikeNames renames some variables to names that are also built-in operators or
// keywords (in operand position a registered variable or constant wins over the operator of
// the same name, in prefix and in infix notation alike). Only for universes that register
// every variable (undefined-variable mode refuses such names by design), and only with
// names the tree does not use as operators.
func operatorLikeNames(t *rapid.T, tree *m.Node, u *Universe) {
	if u.allowUndefined() || len(u.Vars) == 0 || rapid.IntRange(0, 4).Draw(t, "oplike") != 0 {
		return
	}
	used := map[string]bool{}
	tree.Walk(func(x *m.Node) {
		if x.Kind == m.KOp || x.Kind == m.KIf {
			used[x.Name] = true
		}
	})
	for _, c := range u.Consts {
		used[c.Name] = true
	}
	for _, v := range u.Vars {
		used[v.Name] = true
	}
	pool := []string{"mod", "in", "all", "date", "version", "add", "map", "any", "not", "overlap", "between", "eq", "filter", "xor", "t_date", "let",
		"c_sum", "c_cat", "c_id", "andn", "orn", "c_cnt", "c_sum", "c_cat"} // (custom operators too: two of them accept zero operands)
	ren := map[string]string{}
	for i := range u.Vars {
		if rapid.Bool().Draw(t, "oplike_var") {
			continue
		}
		cand := rapid.SampledFrom(pool).Draw(t, "oplike_name")
		if used[cand] {
			continue
		}
		used[cand] = true
		ren[u.Vars[i].Name] = cand
		u.Vars[i].Name = cand
	}
	tree.Walk(func(x *m.Node) {
		if x.Kind == m.KVar {
			if n, ok := ren[x.Name]; ok {
				x.Name = n
			}
		}
	})
}

func drawStateless(t *rapid.T) []string {
	var out []string
	// near-misses declare nothing: another case, padding, a prefix
	if rapid.IntRange(0, 5).Draw(t, "sl_nearmiss") == 0 {
		out = append(out, rapid.SampledFrom([]string{"C_SUM", "C_Id", " c_cat", "c_not ", "c_", "c_cnt2", "C_CNT", "Andn"}).Draw(t, "sl_nearmiss_name"))
	}
	for _, n := range []string{"andn", "c_cat", "c_fail", "c_id", "c_not", "c_sum", "orn"} { // never c_cnt: it is stateful
		if rapid.IntRange(0, 3).Draw(t, "sl_"+n) == 0 {
			out = append(out, n)
		}
	}
	if len(out) >= 2 { // the list is the caller's: any order, not only the sorted one
		out = rapid.Permutation(out).Draw(t, "sl_order")
	}
	return out
}

func rootTy(t *rapid.T) m.Ty {
	return []m.Ty{m.TBool, m.TInt, m.TStr, m.TIntList, m.TStrList}[pickW(t, "rootty", 12, 4, 1, 1, 1)]
}

// flattenModel: ReduceNesting as documented - an and/or directly inside the same
// operator is merged into it (bottom-up), as long as every operand of the outer
// operator is a leaf or such an operator.
func flattenModel(n *m.Node) *m.Node {
	c := &m.Node{Kind: n.Kind, Name: n.Name, Val: n.Val}
	for _, k := range n.Kids {
		c.Kids = append(c.Kids, flattenModel(k))
	}
	and, or := m.IsAnd(c.Name), m.IsOr(c.Name)
	if c.Kind != m.KOp || !(and || or) {
		return c
	}
	var kids []*m.Node
	for _, k := range c.Kids {
		switch {
		case k.IsLeaf():
			kids = append(kids, k)
		case k.Kind == m.KOp && ((and && m.IsAnd(k.Name)) || (or && m.IsOr(k.Name))):
			kids = append(kids, k.Kids...)
		default:
			return c
		}
	}
	c.Kids = kids
	return c
}

func maxOperands(n *m.Node) int {
	mx := len(n.Kids)
	for _, k := range n.Kids {
		if x := maxOperands(k); x > mx {
			mx = x
		}
	}
	return mx
}

// decisionChain builds a program in which one innermost boolean decides (or fails to decide) a
// chain of nested and/or operators: at every level the chain continues in one operand of an
// and/or - mostly the first, sometimes a middle or the last one -, optionally through one or two
// directly nested `if`s (as the taken or the untaken branch) or a `not`; the other operands are
// distinct boolean variables, so that the effect trace shows exactly which of them were reached.
// Half of the chains are coherent: one operator family on every level, and the returned wishes
// (values for the innermost variable and the `if` conditions) make the innermost value travel
// through every taken branch and decide every level. applyWishes writes them into the universe.
func decisionChain(t *rapid.T) (*m.Node, map[string]bool) {
	coherent := rapid.Bool().Draw(t, "chain_coherent")
	wish := map[string]bool{}
	nv := 0
	freshVar := func() *m.Node {
		nv++
		return m.Var(fmt.Sprintf("b%d", nv%10))
	}
	fresh := func() *m.Node {
		v := freshVar()
		if nv%7 == 0 {
			return m.Op("c_id", v)
		}
		return v
	}
	family := rapid.Bool().Draw(t, "chain_family_and")
	ops := map[bool][]string{true: {"and", "&", "&&", "and"}, false: {"or", "|", "||", "or"}}
	var cur *m.Node
	if !coherent && rapid.IntRange(0, 3).Draw(t, "chain_inner") == 0 {
		cur = m.Const(rapid.Bool().Draw(t, "chain_inner_const"))
	} else {
		cur = freshVar()
		wish[cur.Name] = !family // false decides and, true decides or
	}
	depth := rapid.IntRange(2, 9).Draw(t, "chain_depth")
	for i := 0; i < depth; i++ {
		maxWraps := 2
		for w := rapid.IntRange(0, maxWraps).Draw(t, "chain_wraps"); w > 0; w-- {
			var cond *m.Node
			if !coherent && rapid.IntRange(0, 2).Draw(t, "chain_cond") == 0 {
				cond = m.Const(rapid.Bool().Draw(t, "chain_cond_const"))
			} else {
				cond = freshVar()
			}
			kind := rapid.IntRange(0, 4).Draw(t, "chain_wrap")
			if coherent && kind == 4 {
				kind = 0
			}
			switch kind {
			case 0, 1:
				cur = m.If(cond, cur, fresh())
				if cond.Kind == m.KVar {
					wish[cond.Name] = true
				}
			case 2, 3:
				cur = m.If(cond, fresh(), cur)
				if cond.Kind == m.KVar {
					wish[cond.Name] = false
				}
			default:
				cur = m.Op("not", cur)
			}
		}
		fam := family
		if !coherent {
			fam = rapid.Bool().Draw(t, "chain_and")
		}
		op := rapid.SampledFrom(ops[fam]).Draw(t, "chain_op")
		n := rapid.IntRange(1, 3).Draw(t, "chain_siblings")
		pos := 0
		if rapid.IntRange(0, 7).Draw(t, "chain_notfirst") == 0 || (!coherent && rapid.Bool().Draw(t, "chain_notfirst2")) {
			pos = rapid.IntRange(0, n).Draw(t, "chain_pos")
		}
		kids := make([]*m.Node, 0, n+1)
		for k := 0; k <= n; k++ {
			if k == pos {
				kids = append(kids, cur)
			} else {
				kids = append(kids, fresh())
			}
		}
		cur = m.Op(op, kids...)
	}
	if !coherent {
		wish = nil
	}
	return cur, wish
}

// applyWishes binds the named boolean variables to the wished values (where the universe binds them at all).
func applyWishes(u *Universe, wish map[string]bool) {
	for i := range u.Vars {
		if w, ok := wish[u.Vars[i].Name]; ok && u.Vars[i].Mode == 0 && u.Vars[i].Ty == m.TBool {
			u.Vars[i].Val = m.V{X: w}
		}
	}
}

// duplicateOperands makes one operand of an and/or group a structural copy of another operand of
// the same group - the group being the operator together with the same-kind and/or operators
// directly below it (what ReduceNesting merges) - preferring operands that are calls. Identical
// sub-expressions are what common-subexpression shortcuts key on; evaluated twice they must still
// be evaluated twice.
func (g *G) duplicateOperands(tree *m.Node) {
	type slot struct {
		parent *m.Node
		idx    int
	}
	var groups [][]slot
	var collect func(n *m.Node, and bool, into *[]slot)
	collect = func(n *m.Node, and bool, into *[]slot) {
		for i, k := range n.Kids {
			if k.Kind == m.KOp && ((and && m.IsAnd(k.Name)) || (!and && m.IsOr(k.Name))) {
				collect(k, and, into)
			} else {
				*into = append(*into, slot{n, i})
			}
		}
	}
	var parentOf = map[*m.Node]*m.Node{}
	tree.Walk(func(x *m.Node) {
		for _, k := range x.Kids {
			parentOf[k] = x
		}
	})
	tree.Walk(func(x *m.Node) {
		if x.Kind != m.KOp || !(m.IsAnd(x.Name) || m.IsOr(x.Name)) {
			return
		}
		and := m.IsAnd(x.Name)
		if p := parentOf[x]; p != nil && p.Kind == m.KOp && ((and && m.IsAnd(p.Name)) || (!and && m.IsOr(p.Name))) {
			return // part of its parent's group
		}
		var sl []slot
		collect(x, and, &sl)
		if len(sl) >= 2 {
			groups = append(groups, sl)
		}
	})
	if len(groups) == 0 {
		return
	}
	grp := groups[rapid.IntRange(0, len(groups)-1).Draw(g.t, "dup_group")]
	var calls []int
	for i, s := range grp {
		if !s.parent.Kids[s.idx].IsLeaf() {
			calls = append(calls, i)
		}
	}
	from := rapid.IntRange(0, len(grp)-1).Draw(g.t, "dup_from")
	if len(calls) > 0 {
		from = calls[rapid.IntRange(0, len(calls)-1).Draw(g.t, "dup_call")]
	}
	to := rapid.IntRange(0, len(grp)-2).Draw(g.t, "dup_to")
	if to >= from {
		to++
	}
	src := grp[from].parent.Kids[grp[from].idx]
	grp[to].parent.Kids[grp[to].idx] = src.Clone()
}

// idiom returns one of the boolean shapes people actually write - and that peephole rewrites
// therefore target: range checks, guards, negated comparisons, De Morgan and absorption shapes,
// trivial ifs, identity arithmetic under a comparison, a thing compared with itself, singleton
// lists. Operands are leaves or small sub-expressions; the same variable occurs more than once.
func (g *G) idiom(d int, nest bool) *m.Node {
	x := m.Var(g.varName(m.TInt))
	p := m.Var(g.varName(m.TBool))
	li := func() *m.Node { return g.Leaf(m.TInt) }
	sub := func() *m.Node { return g.Expr(m.TBool, d-1) }
	which := 18
	if !nest {
		which = rapid.IntRange(0, 24).Draw(g.t, "idiom")
		if which >= 23 {
			which = 21
		} else if which >= 20 {
			which = 19 // (the offset comparison has three times the weight of the others)
		} else if which >= 18 {
			which++ // (18 is the nest)
		}
	}
	switch which {
	case 19:
		// a comparison of "variable plus/minus a constant" with a constant - the shape an algebraic
		// rewrite would move the offset out of, although x+k wraps around near the ends of int64
		k := m.Const(rapid.SampledFrom([]int64{1, 1, 2, 3, 10, 1 << 32, math.MaxInt64, -1}).Draw(g.t, "idiom_off"))
		var a *m.Node
		switch rapid.IntRange(0, 2).Draw(g.t, "idiom_offshape") {
		case 0:
			a = m.Op(g.alias("+", "add"), x, k)
		case 1:
			a = m.Op(g.alias("-", "sub"), x, k)
		default:
			a = m.Op(g.alias("+", "add"), k, x)
		}
		c := m.Const(rapid.SampledFrom([]int64{5, 0, -1, 100, math.MaxInt64, math.MinInt64, 4}).Draw(g.t, "idiom_offc"))
		cmp := g.alias("<", "<=", ">", ">=", "lt", "ge", "=", "!=")
		if rapid.Bool().Draw(g.t, "idiom_offside") {
			return m.Op(cmp, a, c)
		}
		return m.Op(cmp, c, a)
	case 21:
		// a variable folded with two or three constants by one n-ary arithmetic call - the shape a partial
		// fold would regroup (a/b/c = a/(b*c), a-b-c = a-(b+c)), which int64 wrap-around does not allow
		op := g.alias("/", "div", "-", "sub", "%", "mod", "*", "+")
		ks := []*m.Node{x}
		for i, n := 0, rapid.IntRange(2, 3).Draw(g.t, "idiom_tailn"); i < n; i++ {
			ks = append(ks, m.Const(rapid.SampledFrom([]int64{-1, 2, -1, 3, 1, -2, 10, math.MaxInt64, math.MinInt64, 1 << 32}).Draw(g.t, "idiom_tailk")))
		}
		if rapid.IntRange(0, 3).Draw(g.t, "idiom_tailmid") == 0 {
			ks[0], ks[1] = ks[1], ks[0] // (the variable in second place)
		}
		return m.Op(g.alias("=", "<", ">=", "!="), m.Op(op, ks...), li())
	case 20:
		// "no limit" written as a comparison with an end of the int64 range, on either side
		ext := m.Const(rapid.SampledFrom([]int64{math.MaxInt64, math.MinInt64, math.MaxInt64 - 1, math.MinInt64 + 1}).Draw(g.t, "idiom_ext"))
		cmp := g.alias("<", "<=", ">", ">=", "lt", "le", "gt", "ge", "=", "!=")
		if rapid.Bool().Draw(g.t, "idiom_extside") {
			return m.Op(cmp, ext, x)
		}
		return m.Op(cmp, x, ext)
	case 18:
		// a nest that ReduceNesting merges: every operand of the outer operator is a leaf or a group of
		// the same kind; the groups hold arbitrary operands, and one of them is repeated in another group
		and := rapid.Bool().Draw(g.t, "nest_and")
		name := func() string {
			if and {
				return g.alias("and", "&", "&&")
			}
			return g.alias("or", "|", "||")
		}
		outer := m.Op(name())
		var inner []*m.Node
		for i, n := 0, rapid.IntRange(2, 4).Draw(g.t, "nest_n"); i < n; i++ {
			if i > 0 && rapid.IntRange(0, 2).Draw(g.t, "nest_leaf") == 0 {
				outer.Kids = append(outer.Kids, m.Var(g.varName(m.TBool)))
				continue
			}
			grp := m.Op(name())
			for k, kn := 0, rapid.IntRange(2, 3).Draw(g.t, "nest_k"); k < kn; k++ {
				grp.Kids = append(grp.Kids, sub())
			}
			inner = append(inner, grp)
			outer.Kids = append(outer.Kids, grp)
		}
		if len(inner) >= 2 && rapid.Bool().Draw(g.t, "nest_dup") {
			from := inner[0].Kids[rapid.IntRange(0, len(inner[0].Kids)-1).Draw(g.t, "nest_from")]
			for _, k := range inner[0].Kids { // prefer a call
				if !k.IsLeaf() {
					from = k
				}
			}
			to := inner[len(inner)-1]
			to.Kids[rapid.IntRange(0, len(to.Kids)-1).Draw(g.t, "nest_to")] = from.Clone()
		}
		return outer
	case 0:
		return m.Op(g.alias("and", "&&"), m.Op(g.alias(">=", "ge"), x, li()), m.Op(g.alias("<=", "le"), x.Clone(), li()))
	case 1:
		return m.Op(g.alias("and", "&"), m.Op(g.alias("<", "lt", "<=", "le"), x, li()), m.Op(g.alias(">", "gt", ">=", "ge"), x.Clone(), li()))
	case 2:
		return m.Op(g.alias("or", "||"), m.Op(g.alias("<", "lt"), x, li()), m.Op(g.alias(">", "gt"), x.Clone(), li()))
	case 3: // guard
		return m.Op(g.alias("and", "&&"), m.Op(g.alias("!=", "ne"), x, m.Const(int64(0))), m.Op(g.alias(">", ">=", "="), m.Op(g.alias("/", "div", "%"), li(), x.Clone()), li()))
	case 4:
		return m.Op(g.alias("or", "|"), m.Op(g.alias("=", "eq"), x, m.Const(int64(0))), m.Op(g.alias("<", "!="), m.Op(g.alias("/", "mod"), li(), x.Clone()), li()))
	case 5: // negated comparisons, n-ary equality included
		n := rapid.IntRange(2, 4).Draw(g.t, "idiom_eqn")
		ks := make([]*m.Node, n)
		for i := range ks {
			ks[i] = li()
		}
		return m.Op(g.alias("not", "!"), m.Op(g.alias("=", "==", "eq"), ks...))
	case 6:
		return m.Op(g.alias("not", "!"), m.Op(g.alias("<", ">", "<=", ">=", "!=", "lt", "ge", "ne"), li(), li()))
	case 7:
		return m.Op(g.alias("not", "!"), m.Op(g.alias("not", "!"), sub()))
	case 8: // De Morgan shapes
		return m.Op(g.alias("not", "!"), m.Op(g.alias("and", "or", "&&", "||"), sub(), sub()))
	case 9:
		return m.Op(g.alias("and", "or"), m.Op("not", sub()), m.Op("!", sub()))
	case 10: // absorption / idempotence / excluded middle
		q := sub()
		return m.Op(g.alias("or", "and"), p, m.Op(g.alias("and", "or"), p.Clone(), q))
	case 11:
		return m.Op(g.alias("and", "or", "xor"), p, p.Clone())
	case 12:
		return m.Op(g.alias("or", "and"), p, m.Op(g.alias("not", "!"), p.Clone()))
	case 13: // trivial ifs
		c := sub()
		switch rapid.IntRange(0, 3).Draw(g.t, "idiom_if") {
		case 0:
			return m.If(c, m.Const(true), m.Const(false))
		case 1:
			return m.If(c, m.Const(false), m.Const(true))
		case 2:
			return m.If(c, p, p.Clone())
		default:
			return m.If(m.Op(g.alias("not", "!"), c), sub(), sub())
		}
	case 14: // identity arithmetic under a comparison
		var a *m.Node
		switch rapid.IntRange(0, 4).Draw(g.t, "idiom_id") {
		case 0:
			a = m.Op(g.alias("+", "add"), x, m.Const(int64(0)))
		case 1:
			a = m.Op(g.alias("*", "mul"), m.Const(int64(1)), x)
		case 2:
			a = m.Op(g.alias("-", "sub"), x, x.Clone())
		case 3:
			a = m.Op(g.alias("/", "div"), x, m.Const(int64(1)))
		default:
			a = m.Op(g.alias("*", "mul"), x, m.Const(int64(0)))
		}
		return m.Op(g.alias("=", ">", "<=", "!="), a, li())
	case 15: // a thing against itself
		return m.Op(g.alias("=", "!=", "<=", "<", "eq", "ne", "ge", "gt"), x, x.Clone())
	case 16: // singleton and empty lists
		switch rapid.IntRange(0, 2).Draw(g.t, "idiom_list") {
		case 0:
			return m.Op("in", x, m.Const([]int64{rapid.Int64Range(-2, 3).Draw(g.t, "idiom_k")}))
		case 1:
			return m.Op("in", m.Var(g.varName(m.TStr)), m.Const([]string{rapid.SampledFrom(strElemPool).Draw(g.t, "idiom_s")}))
		default:
			return m.Op("overlap", m.Const([]int64{rapid.Int64Range(-2, 3).Draw(g.t, "idiom_k2")}), g.Leaf(m.TIntList))
		}
	default: // between written out, and the real thing (now and then over a single-point or an empty range)
		lo, hi := li(), li()
		if k, ok := lo.Val.(int64); ok && lo.Kind == m.KConst && rapid.IntRange(0, 2).Draw(g.t, "idiom_point") == 0 {
			hi = m.Const(k + int64(rapid.IntRange(-1, 1).Draw(g.t, "idiom_pointd")))
		}
		return m.Op(g.alias("and", "or"), m.Op("between", x, lo, hi), m.Op(g.alias(">=", "<"), x.Clone(), li()))
	}
}

// caseTwins renames one variable to the upper-case spelling of another one (b0 / B0), or to a dotted
// extension of it (b0 / b0.x): names are case-sensitive and whole, the two stay different variables with their own values. Call it after everything
// that derives a type from a variable's name.
func caseTwins(t *rapid.T, tree *m.Node, u *Universe) {
	if len(u.Vars) < 2 || rapid.IntRange(0, 3).Draw(t, "casetwins") != 0 {
		return
	}
	i := rapid.IntRange(0, len(u.Vars)-1).Draw(t, "twin_of")
	j := rapid.IntRange(0, len(u.Vars)-2).Draw(t, "twin")
	if j >= i {
		j++
	}
	twin := strings.ToUpper(u.Vars[i].Name)
	switch rapid.IntRange(0, 3).Draw(t, "twinkind") {
	case 1: // ... or to a dotted extension of it (user / user.age): names are whole names, not paths
		twin = u.Vars[i].Name + ".x"
	case 2:
		twin = u.Vars[i].Name + "." + u.Vars[i].Name
	}
	if twin == u.Vars[i].Name || u.Var(twin) != nil {
		return
	}
	for _, c := range u.Consts {
		if c.Name == twin {
			return
		}
	}
	old := u.Vars[j].Name
	u.Vars[j].Name = twin
	tree.Walk(func(x *m.Node) {
		if x.Kind == m.KVar && x.Name == old {
			x.Name = twin
		}
	})
}

// bigListProgram: a program over large, unsorted list literals (95..140 elements, or 30..60 against
// list variables of about a hundred) and list variables, through in / overlap.
func bigListProgram(t *rapid.T) (*m.Node, *Universe) {
	var tree *m.Node
	var u *Universe
	n := rapid.IntRange(95, 140).Draw(t, "biglen")
	big := make([]int64, n)
	for k := range big {
		big[k] = int64((k*7919 + 13) % 1009)
	}
	strs := make([]string, n)
	for k := range strs {
		strs[k] = elemStr(big[k])
	}
	switch rapid.IntRange(0, 3).Draw(t, "bigkind") {
	case 0:
		tree = m.Op("or", m.Op("overlap", m.Const(big), m.Var("li0")), m.Var("b0"))
	case 1:
		tree = m.Op("and", m.Op("overlap", m.Var("ls0"), m.Const(strs)), m.Op("in", m.Var("i0"), m.Const(big)))
	case 2:
		tree = m.If(m.Op("in", m.Var("s0"), m.Const(strs)), m.Op("overlap", m.Var("li0"), m.Const(big)), m.Var("b0"))
	default:
		tree = m.Op("xor", m.Op("overlap", m.Const(strs), m.Var("ls0")), m.Op("overlap", m.Var("li1"), m.Var("li0")))
	}
	// in half of the cases the literal is the SHORTER operand: an unsorted literal of 30..60
	// elements against list variables of about a hundred
	longVars := rapid.Bool().Draw(t, "longvars")
	if longVars {
		k := rapid.IntRange(30, 60).Draw(t, "shortlit")
		tree.Walk(func(x *m.Node) {
			if x.Kind == m.KConst {
				switch l := x.Val.(type) {
				case []int64:
					x.Val = append([]int64(nil), l[:k]...)
				case []string:
					x.Val = append([]string(nil), l[:k]...)
				}
			}
		})
	}
	u = UniverseFor(t, tree, false)
	if longVars {
		for i := range u.Vars {
			switch u.Vars[i].Ty {
			case m.TIntList:
				u.Vars[i].Val.X = bigInts(90 + 7*i)
			case m.TStrList:
				u.Vars[i].Val.X = bigStrs(95 + 5*i)
			}
		}
	}
	return tree, u
}

// unicodeLetters: letters whose code point ends in the byte of an ASCII character the lexer or the
// formatter treats specially - ( ) [ ] ; , " space tab LF ! = - so that code which looks at one byte
// of a rune mistakes them; plus ordinary non-ASCII letters.
var unicodeLetters = []rune{0x0128, 0x0129, 0x015B, 0x015D, 0x013B, 0x012C, 0x0122, 0x0120, 0x0109, 0x010A, 0x0121, 0x013D, 0x4E5D, 0x4E28, 0x4E29, 0x4E3B, 0x4E22, 'é', 'ß', 'π', '变', 'я'}

// unicodeNames renames some registered variables to identifiers containing such letters.
func unicodeNames(t *rapid.T, tree *m.Node, u *Universe) {
	if u.allowUndefined() || len(u.Vars) == 0 || rapid.IntRange(0, 3).Draw(t, "uninames") != 0 {
		return
	}
	ren := map[string]string{}
	for i := range u.Vars {
		if rapid.Bool().Draw(t, "uniname_skip") {
			continue
		}
		r := rapid.SampledFrom(unicodeLetters).Draw(t, "uniname_letter")
		name := []string{"go" + string(r) + "c", string(r) + "x", "x" + string(r), string(r), "a" + string(r) + string(r) + "b"}[rapid.IntRange(0, 4).Draw(t, "uniname_form")] + fmt.Sprint(i)
		ren[u.Vars[i].Name] = name
		u.Vars[i].Name = name
	}
	tree.Walk(func(x *m.Node) {
		if x.Kind == m.KVar {
			if n, ok := ren[x.Name]; ok {
				x.Name = n
			}
		}
	})
}
