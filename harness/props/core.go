// Package props holds the executable form of the properties C01..C20: for each
// a generator (rapid), a deterministic check(case) with an explicit oracle, a
// replay entry that bypasses rapid, and a corpus replay.
package props

import (
	"errors"
	"fmt"
	"math"
	"regexp"
	"runtime"
	"sort"
	"strconv"
	"strings"
	"sync/atomic"
	"time"

	"github.com/onheap/eval"

	m "verifharness/model"
)

// ---------------------------------------------------------------- universe

type VarDecl struct {
	Name string `json:"name"`
	Ty   m.Ty   `json:"ty"`
	Val  m.V    `json:"val"`
	Mode int    `json:"mode,omitempty"` // 0 bound, 1 fetch fails with the sentinel, 2 not bound
}

type ConstDecl struct {
	Name string `json:"name"`
	Val  m.V    `json:"val"`
}

const (
	RegExplicit  = iota // VariableKeyMap filled with explicit keys KeyBase, KeyBase+1, ...
	RegGetOrReg         // GetOrRegisterKey in declaration order
	RegVarAndOp         // eval.RegVarAndOp(map of the variables)
	RegUndefined        // nothing registered, AllowUndefinedVariable
	RegHalf             // every second variable registered, AllowUndefinedVariable for the rest
	RegMixed            // the first half with explicit keys (KeyBase + i*KeyStride), the rest through GetOrRegisterKey
	regModes
)

type Universe struct {
	Vars      []VarDecl   `json:"vars"`
	Consts    []ConstDecl `json:"consts,omitempty"`
	Stateless []string    `json:"stateless,omitempty"` // custom operators listed as stateless
	RegMode   int         `json:"reg_mode,omitempty"`
	KeyBase   int         `json:"key_base,omitempty"`
	KeyStride int         `json:"key_stride,omitempty"` // explicit keys are KeyBase + i*KeyStride (0 means 1)
	// Decoys: the config also registers variables named `true` and `false`, bound to false and true.
	// No program can mention them - the two words are the boolean literals wherever they stand -, so
	// they change nothing; a program that reads them has mistaken a literal for a variable.
	Decoys bool `json:"decoys,omitempty"`
}

func (u *Universe) Var(name string) *VarDecl {
	for i := range u.Vars {
		if u.Vars[i].Name == name {
			return &u.Vars[i]
		}
	}
	return nil
}

// Bound returns the bound values, Fail the failing fetches.
func (u *Universe) Bound() map[string]interface{} {
	out := map[string]interface{}{}
	if u.Decoys {
		out["true"], out["false"] = false, true
	}
	for _, v := range u.Vars {
		if v.Mode == 0 {
			out[v.Name] = v.Val.X
		}
	}
	return out
}

func (u *Universe) Fail() map[string]error {
	out := map[string]error{}
	for _, v := range u.Vars {
		if v.Mode == 1 {
			out[v.Name] = m.ErrFetch
		}
	}
	return out
}

func (u *Universe) AllBound() bool {
	for _, v := range u.Vars {
		if v.Mode != 0 {
			return false
		}
	}
	return true
}

func (u *Universe) allowUndefined() bool { return u.RegMode == RegUndefined || u.RegMode == RegHalf }

// ---------------------------------------------------------------- custom operators

// customModel is the semantics of the registered operators; the engine-side
// operators and the reference evaluator share nothing but this table, which is
// part of the test input, not of the code under test.
func customModel() map[string]m.CustomFn {
	return map[string]m.CustomFn{
		"c_id": func(a []interface{}, _ int64) (interface{}, error) {
			if len(a) != 1 {
				return nil, m.ErrCustom
			}
			return a[0], nil
		},
		"c_sum": func(a []interface{}, _ int64) (interface{}, error) {
			var s int64
			for _, x := range a {
				v, ok := x.(int64)
				if !ok {
					return nil, m.ErrCustom
				}
				s += v
			}
			return s, nil
		},
		"c_not": func(a []interface{}, _ int64) (interface{}, error) {
			if len(a) != 1 {
				return nil, m.ErrCustom
			}
			b, ok := a[0].(bool)
			if !ok {
				return nil, m.ErrCustom
			}
			return !b, nil
		},
		"c_cat": func(a []interface{}, _ int64) (interface{}, error) {
			s := ""
			for _, x := range a {
				v, ok := x.(string)
				if !ok {
					return nil, m.ErrCustom
				}
				s += v
			}
			return s, nil
		},
		// (an operator may return a value together with its error; Eval hands both on)
		"c_fail": func(a []interface{}, _ int64) (interface{}, error) { return "returned-with-the-error", m.ErrCustom },
		// strict boolean operators whose names merely look like and / or: andn = not all, orn = not any
		"andn": func(a []interface{}, _ int64) (interface{}, error) {
			all := true
			for _, x := range a {
				b, ok := x.(bool)
				if !ok {
					return nil, m.ErrCustom
				}
				all = all && b
			}
			return !all, nil
		},
		"orn": func(a []interface{}, _ int64) (interface{}, error) {
			any := false
			for _, x := range a {
				b, ok := x.(bool)
				if !ok {
					return nil, m.ErrCustom
				}
				any = any || b
			}
			return !any, nil
		},
		// c_re is the identity; C07 registers a version that re-enters the program it is part of
		"c_re": func(a []interface{}, _ int64) (interface{}, error) {
			if len(a) != 1 {
				return nil, m.ErrCustom
			}
			return a[0], nil
		},
		"c_cnt": func(a []interface{}, calls int64) (interface{}, error) { return calls, nil },
	}
}

var customNames = []string{"andn", "c_cat", "c_cnt", "c_fail", "c_id", "c_not", "c_re", "c_sum", "orn"}

// Log records the effects the engine performs, in order.
type Log struct {
	Ev      []m.Ev
	NilCtx  []bool // per custom call: was the context nil (compile-time folding)
	calls   map[string]int64
	KeyErrs []string // variable fetched with a key that is not the one registered for its name
}

func (l *Log) Reset() { l.Ev, l.NilCtx, l.KeyErrs = nil, nil, nil }

func (l *Log) Calls() map[string]int64 {
	out := map[string]int64{}
	for k, v := range l.calls {
		out[k] = v
	}
	return out
}

// ---------------------------------------------------------------- option subsets

var allOpts = []eval.CompileOption{eval.ConstantFolding, eval.ReduceNesting, eval.FastEvaluation, eval.Reordering}

const (
	MaskFold    = 1
	MaskNest    = 2
	MaskFast    = 4
	MaskReorder = 8
)

const (
	HowMapAll       = iota // all four options written explicitly into CompileOptions
	HowMapSparse           // only the disabled ones written (absent means enabled)
	HowOptionFn            // eval.Optimizations(...) option functions
	HowDirective           // leading ;;;; directive comments in the source
	HowDirectiveOpp        // the same directive over a config whose four options are written to the opposite values
	HowCopySet             // a config with the opposite options is built completely, copied with CopyConfig, and the options are set on the copy
	HowExtendSet           // ... copied with NewConfig(ExtendConf(conf), Optimizations(...)) instead
	HowExtendKeep          // all four options written into the map (as HowMapAll), the config then handed on through NewConfig(ExtendConf(conf)) - twice - with nothing set afterwards: what was switched off stays off
	HowCopyKeep            // ... through CopyConfig(CopyConfig(conf))
	howModes
)

type CostEntry struct {
	Name string `json:"name"`
	C    string `json:"c"` // strconv float syntax, so NaN / ±Inf survive JSON
}

func (c CostEntry) F() float64 { f, _ := strconv.ParseFloat(c.C, 64); return f }

func fstr(f float64) string { return strconv.FormatFloat(f, 'g', -1, 64) }

// Build describes one compilation.
type Build struct {
	Mask    int
	How     int
	Variant int // directive spelling variant
	Costs   []CostEntry
	Events  int // 0 none, 1 ReportEvent, 2 Debug, 3 both; -1 / -2 / -3 none, with both / the ReportEvent / the Debug key present and false
	Infix   bool
	Pure    bool // register lock-free, non-logging custom operators (for programs shared between goroutines)
}

func maskName(mask int) string {
	s := ""
	for i, n := range []string{"F", "N", "Q", "R"} {
		if mask&(1<<i) != 0 {
			s += n
		} else {
			s += "-"
		}
	}
	return s
}

const directiveVariants = 8

// directive returns a ;;;; comment prefix expressing mask, spelled in one of several ways.
func directive(mask, variant int) string {
	names := []string{"constant_folding", "reduce_nesting", "fast_evaluation", "reordering"}
	b := func(i int) string { return strconv.FormatBool(mask&(1<<i) != 0) }
	switch variant % directiveVariants {
	case 4: // a plain comment line first, then one directive line
		p := make([]string, 4)
		for i := range names {
			p[i] = names[i] + ":" + b(i)
		}
		return ";; header comment\n;;;; " + strings.Join(p, ", ") + "\n"
	case 5: // blank line and plain comments around one directive per line
		s := "\n  ; note\n"
		for i := range names {
			s += ";;;; " + names[i] + ": " + b(i) + "\n; between\n"
		}
		return s
	case 6: // named options that say the opposite first, then the umbrella switch off, then the enabled ones: the later directive wins
		nb := func(i int) string { return strconv.FormatBool(mask&(1<<i) == 0) }
		s := ";;;; " + names[3] + ": " + nb(3) + ", " + names[0] + ": " + nb(0) + ", optimize: false\n"
		for i := range names {
			if mask&(1<<i) != 0 {
				s += ";;;; " + names[i] + ": true\n"
			}
		}
		return s
	case 7: // the same with the umbrella switch on, on separate lines
		nb := func(i int) string { return strconv.FormatBool(mask&(1<<i) == 0) }
		s := ";;;; " + names[1] + ": " + nb(1) + "\n;;;; " + names[2] + ": " + nb(2) + "\n;;;; optimize: true\n"
		for i := range names {
			if mask&(1<<i) == 0 {
				s += ";;;; " + names[i] + ": false\n"
			}
		}
		return s
	case 0: // one line, all four
		p := make([]string, 4)
		for i := range names {
			p[i] = names[i] + ":" + b(i)
		}
		return ";;;; " + strings.Join(p, ", ") + "\n"
	case 1: // one line each
		s := ""
		for i := range names {
			s += ";;;;" + names[i] + " : " + b(i) + "\n"
		}
		return s
	case 2: // umbrella off, then the enabled ones; with a plain comment in between
		s := ";;;; optimize:false\n; plain comment\n"
		for i := range names {
			if mask&(1<<i) != 0 {
				s += "  ;;;;  " + names[i] + ":true  \n"
			}
		}
		return s
	default: // umbrella on, then overrides on the same line
		p := []string{"optimize: true"}
		for i := range names {
			if mask&(1<<i) == 0 {
				p = append(p, names[i]+": false")
			}
		}
		return ";;;;" + strings.Join(p, ",") + "\n"
	}
}

// NewConfig builds the eval.Config for a universe and a build description.
// It returns the config and the prefix that must be put in front of the source.
func NewConfig(u *Universe, log *Log, b Build) (*eval.Config, string) {
	var opts []eval.Option
	prefix := ""
	switch b.How {
	case HowOptionFn:
		var on, off []eval.CompileOption
		for i, o := range allOpts {
			if b.Mask&(1<<i) != 0 {
				on = append(on, o)
			} else {
				off = append(off, o)
			}
		}
		switch {
		case len(off) == 0:
			opts = append(opts, eval.Optimizations(true))
		case len(on) == 0:
			opts = append(opts, eval.Optimizations(false, eval.Optimize))
		default:
			opts = append(opts, eval.Optimizations(false), eval.Optimizations(true, on...))
		}
	case HowDirective, HowDirectiveOpp:
		prefix = directive(b.Mask, b.Variant)
	}
	optionFns := func() []eval.Option {
		var on []eval.CompileOption
		for i, o := range allOpts {
			if b.Mask&(1<<i) != 0 {
				on = append(on, o)
			}
		}
		if len(on) == 0 {
			return []eval.Option{eval.Optimizations(false)}
		}
		return []eval.Option{eval.Optimizations(false), eval.Optimizations(true, on...)}
	}
	cc := eval.NewConfig(opts...)
	switch b.How {
	case HowDirectiveOpp, HowCopySet, HowExtendSet:
		for i, o := range allOpts {
			cc.CompileOptions[o] = b.Mask&(1<<i) == 0
		}
	case HowMapAll, HowExtendKeep, HowCopyKeep:
		for i, o := range allOpts {
			cc.CompileOptions[o] = b.Mask&(1<<i) != 0
		}
	case HowMapSparse:
		for i, o := range allOpts {
			if b.Mask&(1<<i) == 0 {
				cc.CompileOptions[o] = false
			}
		}
	}
	switch b.Events {
	case 1:
		eval.EnableReportEvent(cc)
	case 2:
		eval.EnableDebug(cc)
	case 3: // both (a config may well say so)
		eval.EnableReportEvent(cc)
		eval.EnableDebug(cc)
	case -1: // said explicitly: no events (the keys are present, their values false)
		cc.CompileOptions[eval.ReportEvent] = false
		cc.CompileOptions[eval.Debug] = false
	case -2:
		cc.CompileOptions[eval.ReportEvent] = false
	case -3:
		cc.CompileOptions[eval.Debug] = false
	}
	if b.Infix {
		eval.EnableInfixNotation(cc)
	}
	for _, c := range b.Costs {
		cc.CostsMap[c.Name] = c.F()
	}
	registerVars(cc, u)
	for _, c := range u.Consts {
		cc.ConstantMap[c.Name] = c.Val.X
	}
	if b.Pure {
		registerPure(cc)
	} else {
		registerCustom(cc, log)
	}
	cc.StatelessOperators = append(cc.StatelessOperators, u.Stateless...)
	switch b.How {
	case HowCopySet:
		cp := eval.CopyConfig(cc)
		for i, o := range allOpts {
			cp.CompileOptions[o] = b.Mask&(1<<i) != 0
		}
		return cp, prefix
	case HowExtendSet:
		return eval.NewConfig(append([]eval.Option{eval.ExtendConf(cc)}, optionFns()...)...), prefix
	case HowExtendKeep:
		return eval.NewConfig(eval.ExtendConf(eval.NewConfig(eval.ExtendConf(cc)))), prefix
	case HowCopyKeep:
		return eval.CopyConfig(eval.CopyConfig(cc)), prefix
	}
	return cc, prefix
}

// registerPure registers the custom operators without any logging or state, so that
// a config / program using them can be shared between goroutines (c_cnt is a constant 0).
var pureCalls uint32

func registerPure(cc *eval.Config) {
	for name, f := range customModel() {
		f := f
		cc.OperatorMap[name] = func(_ *eval.Ctx, params []eval.Value) (eval.Value, error) {
			if atomic.AddUint32(&pureCalls, 1)%2 == 0 {
				runtime.Gosched() // a yield point inside Compile (folding) and inside evaluations: affects the schedule only
			}
			args := make([]interface{}, len(params))
			for i, p := range params {
				args[i] = p
			}
			return f(args, 0)
		}
	}
}

func registerVars(cc *eval.Config, u *Universe) {
	switch u.RegMode {
	case RegExplicit:
		stride := u.KeyStride
		if stride == 0 {
			stride = 1
		}
		for i, v := range u.Vars {
			cc.VariableKeyMap[v.Name] = eval.VariableKey(u.KeyBase + i*stride)
		}
	case RegGetOrReg:
		for _, v := range u.Vars {
			eval.GetOrRegisterKey(cc, v.Name)
		}
	case RegVarAndOp:
		mm := map[string]interface{}{}
		for _, v := range u.Vars {
			mm[v.Name] = v.Val.X
		}
		eval.RegVarAndOp(mm)(cc)
	case RegUndefined:
		eval.EnableUndefinedVariable(cc)
	case RegHalf:
		eval.EnableUndefinedVariable(cc)
		for i, v := range u.Vars {
			if i%2 == 0 {
				eval.GetOrRegisterKey(cc, v.Name)
			}
		}
	case RegMixed:
		stride := u.KeyStride
		if stride == 0 {
			stride = 1
		}
		half := (len(u.Vars) + 1) / 2
		for i, v := range u.Vars[:half] {
			cc.VariableKeyMap[v.Name] = eval.VariableKey(u.KeyBase + i*stride)
		}
		for _, v := range u.Vars[half:] {
			eval.GetOrRegisterKey(cc, v.Name)
		}
	}
	if u.Decoys {
		eval.GetOrRegisterKey(cc, "true")
		eval.GetOrRegisterKey(cc, "false")
	}
}

func registerCustom(cc *eval.Config, log *Log) {
	if log.calls == nil {
		log.calls = map[string]int64{}
	}
	for name, f := range customModel() {
		name, f := name, f
		cc.OperatorMap[name] = func(ctx *eval.Ctx, params []eval.Value) (eval.Value, error) {
			args := make([]interface{}, len(params))
			for i, p := range params {
				args[i] = p
			}
			r, err := f(args, log.calls[name])
			log.calls[name]++
			log.Ev = append(log.Ev, m.Ev{Op: name, Args: append([]interface{}(nil), args...), Res: r, Err: err})
			log.NilCtx = append(log.NilCtx, ctx == nil)
			return r, err
		}
	}
}

// ---------------------------------------------------------------- fetcher

// Fetcher is the instrumented VariableFetcher: it logs every Get, answers
// Cached truthfully from Avail, and fails with sentinels.
type Fetcher struct {
	Vars  map[string]interface{}
	Fail  map[string]error
	Avail map[string]bool // nil: everything available
	Log   *Log
	Keys  map[string]eval.VariableKey // expected key per registered name (nil: not checked)
	// DNEAsValue: an unavailable variable is reported as cached and Get returns the eval.DNE marker
	// (the other documented way of saying "not available": a DNE value in the bindings)
	DNEAsValue bool
	// Yield: the fetcher gives up the processor (runtime.Gosched) on every Yield-th call of Get / Cached
	// (0: never). A fetcher may block or be slow; with it the harness owns part of the schedule: other
	// goroutines run whole evaluations between two fetches of this one (C07).
	Yield  int
	yieldN int
	Raw    bool // hand integers over as Go int instead of int64 (a fetcher is free to do so; the engine then sees a value no operator but eq/ne accepts)
}

func NewFetcher(u *Universe, cc *eval.Config, log *Log) *Fetcher {
	// the harness hands out distinct explicit keys, so the key map stays injective whatever
	// GetOrRegisterKey adds to it
	if len(cc.VariableKeyMap) > 1 {
		owner := make(map[eval.VariableKey]string, len(cc.VariableKeyMap))
		for n, k := range cc.VariableKeyMap {
			if o, dup := owner[k]; dup {
				if o > n {
					o, n = n, o
				}
				log.KeyErrs = append(log.KeyErrs, fmt.Sprintf("variables %q and %q are registered under the same key %d", o, n, k))
			}
			owner[k] = n
		}
	}
	return &Fetcher{Vars: u.Bound(), Fail: u.Fail(), Log: log, Keys: cc.VariableKeyMap}
}

func (f *Fetcher) yield() {
	if f.Yield > 0 {
		f.yieldN++
		if f.yieldN%f.Yield == 0 {
			runtime.Gosched()
		}
	}
}

func (f *Fetcher) Get(k eval.VariableKey, s string) (eval.Value, error) {
	f.yield()
	f.Log.Ev = append(f.Log.Ev, m.Ev{Get: s})
	if f.Keys != nil {
		want, ok := f.Keys[s]
		if !ok {
			want = eval.UndefinedVarKey
		}
		if want != k {
			f.Log.KeyErrs = append(f.Log.KeyErrs, fmt.Sprintf("Get(%d,%q): registered key is %d", k, s, want))
		}
	}
	if f.Avail != nil && !f.Avail[s] && f.DNEAsValue {
		return eval.DNE, nil
	}
	if f.Avail != nil && !f.Avail[s] {
		// like the repository's map fetcher: a variable that is not cached cannot be fetched.
		// TryEval must have asked Cached first and never get here.
		f.Log.KeyErrs = append(f.Log.KeyErrs, fmt.Sprintf("Get(%q) although Cached reports it unavailable", s))
		return nil, ErrUnavailable
	}
	if err, ok := f.Fail[s]; ok {
		return nil, err
	}
	v, ok := f.Vars[s]
	if !ok {
		return nil, m.ErrUnbound
	}
	if f.Raw {
		return rawValue(s, v), nil
	}
	return v, nil
}

// rawValue: what a fetcher in Raw mode hands over for the variable: integers of every other
// variable (by name hash) come as Go int, the others as Go int32 when they fit.
func rawValue(name string, v interface{}) interface{} {
	i, isInt := v.(int64)
	if !isInt {
		return v
	}
	switch hash64(name) % 3 {
	case 0:
		return int(i)
	case 1:
		if int64(int32(i)) == i {
			return int32(i)
		}
	}
	return v
}

// rawBound is the binding as the engine sees it through a Raw fetcher.
func rawBound(vars map[string]interface{}) map[string]interface{} {
	out := map[string]interface{}{}
	for n, v := range vars {
		out[n] = rawValue(n, v)
	}
	return out
}

// ErrUnavailable is returned by the instrumented fetcher when Get is called for a
// variable it reports as not cached.
var ErrUnavailable = errors.New("harness: Get of a variable that is not available")

func (f *Fetcher) Set(k eval.VariableKey, s string, v eval.Value) error {
	return errors.New("harness fetcher is read-only")
}

func (f *Fetcher) Cached(k eval.VariableKey, s string) bool {
	f.yield()
	if f.Keys != nil {
		want, ok := f.Keys[s]
		if !ok {
			want = eval.UndefinedVarKey
		}
		if want != k {
			f.Log.KeyErrs = append(f.Log.KeyErrs, fmt.Sprintf("Cached(%d,%q): registered key is %d", k, s, want))
		}
	}
	if f.Avail == nil || f.DNEAsValue {
		return true
	}
	return f.Avail[s]
}

func (f *Fetcher) Ctx() *eval.Ctx { return &eval.Ctx{VariableFetcher: f} }

// ---------------------------------------------------------------- guarded calls

type Outcome struct {
	Val   interface{}
	Err   error
	Panic interface{}
	Site  string // top frame inside the repository, for root-cause counting
}

func (o Outcome) String() string {
	switch {
	case o.Panic != nil:
		return fmt.Sprintf("PANIC(%v at %s)", o.Panic, o.Site)
	case o.Err != nil:
		return fmt.Sprintf("error[%s](%v)", m.ErrClass(o.Err), o.Err)
	}
	return fmt.Sprintf("%s:%T", renderAny(o.Val), o.Val)
}

func renderAny(v interface{}) string {
	switch v.(type) {
	case int64, bool, string, []int64, []string:
		return m.RenderVal(v)
	}
	return fmt.Sprintf("%v", v)
}

func repoFrame() string {
	pc := make([]uintptr, 64)
	n := runtime.Callers(3, pc)
	fr := runtime.CallersFrames(pc[:n])
	for {
		f, more := fr.Next()
		if strings.Contains(f.Function, "onheap/eval.") && !strings.Contains(f.File, "verif_export") {
			file := f.File
			if i := strings.LastIndex(file, "/"); i >= 0 {
				file = file[i+1:]
			}
			return fmt.Sprintf("%s:%d", file, f.Line)
		}
		if !more {
			return "?"
		}
	}
}

// Safe runs an engine call that yields (value, error) and captures a panic.
func Safe(f func() (eval.Value, error)) (o Outcome) {
	atomic.AddInt64(&engineCalls, 1)
	defer func() {
		if r := recover(); r != nil {
			o.Panic, o.Site = r, repoFrame()
		}
	}()
	o.Val, o.Err = f()
	return
}

// SafeStr runs an engine call that yields text (Dump, DumpTable, IndentByParentheses).
func SafeStr(f func() string) (s string, o Outcome) {
	atomic.AddInt64(&engineCalls, 1)
	defer func() {
		if r := recover(); r != nil {
			o.Panic, o.Site = r, repoFrame()
		}
	}()
	s = f()
	return
}

// SafeCompile compiles and captures panics; exactly one of expr/error must be non-nil.
func SafeCompile(cc *eval.Config, src string) (e *eval.Expr, o Outcome) {
	atomic.AddInt64(&engineCalls, 1)
	defer func() {
		if r := recover(); r != nil {
			e = nil
			o.Panic, o.Site = r, repoFrame()
		}
	}()
	e, o.Err = eval.Compile(cc, src)
	return
}

var engineCalls int64

// ---------------------------------------------------------------- comparing outcomes

// Agrees: does the engine's outcome match the reference (value, error class)?
func Agrees(o Outcome, val interface{}, err error) bool {
	if o.Panic != nil {
		return false
	}
	if err == nil {
		return o.Err == nil && m.EqualVal(o.Val, val)
	}
	if o.Err == nil {
		return false
	}
	want := m.ErrClass(err)
	got := m.ErrClass(o.Err)
	return want == got
}

func refString(val interface{}, err error) string {
	if err != nil {
		return fmt.Sprintf("error[%s]", m.ErrClass(err))
	}
	return fmt.Sprintf("%s:%T", renderAny(val), val)
}

// SameOutcome: two engine outcomes are the same (value, or error of the same class).
func SameOutcome(a, b Outcome) bool {
	if a.Panic != nil || b.Panic != nil {
		return false
	}
	if (a.Err == nil) != (b.Err == nil) {
		return false
	}
	if a.Err != nil {
		return m.ErrClass(a.Err) == m.ErrClass(b.Err)
	}
	if a.Val == eval.DNE || b.Val == eval.DNE {
		return a.Val == eval.DNE && b.Val == eval.DNE
	}
	return m.EqualVal(a.Val, b.Val)
}

// MatchTrace compares the engine's effect log with the reference trace, in
// which events marked Opt may be present or absent.
func MatchTrace(got, want []m.Ev) bool {
	dead := map[[2]int]bool{}
	var rec func(i, j int) bool
	rec = func(i, j int) bool {
		if j == len(want) {
			return i == len(got)
		}
		k := [2]int{i, j}
		if dead[k] {
			return false
		}
		if i < len(got) && sameEv(got[i], want[j]) && rec(i+1, j+1) {
			return true
		}
		if want[j].Opt && rec(i, j+1) {
			return true
		}
		dead[k] = true
		return false
	}
	return rec(0, 0)
}

func sameEv(g, w m.Ev) bool {
	if g.Get != w.Get || g.Op != w.Op {
		return false
	}
	if g.Get != "" {
		return true
	}
	if len(g.Args) != len(w.Args) {
		return false
	}
	for i := range g.Args {
		if !m.EqualVal(g.Args[i], w.Args[i]) {
			return false
		}
	}
	if (g.Err == nil) != (w.Err == nil) {
		return false
	}
	if g.Err != nil {
		return m.ErrClass(g.Err) == m.ErrClass(w.Err)
	}
	return m.EqualVal(g.Res, w.Res)
}

// ---------------------------------------------------------------- misc helpers

func sortedKeys[V any](mm map[string]V) []string {
	out := make([]string, 0, len(mm))
	for k := range mm {
		out = append(out, k)
	}
	sort.Strings(out)
	return out
}

func wrapRoot(n *m.Node) *m.Node {
	if n.Kind == m.KVar || (n.Kind == m.KConst && !isList(n.Val)) || (n.Kind == m.KConst && n.Name != "") {
		return m.If(m.Const(true), n, n.Clone())
	}
	return n
}

func isList(v interface{}) bool {
	switch v.(type) {
	case []int64, []string:
		return true
	}
	return false
}

// fixEmptyLists: the empty list literal denotes []string{} whatever the context.
func fixEmptyLists(n *m.Node) {
	n.Walk(func(x *m.Node) {
		if x.Kind == m.KConst && x.Name == "" {
			switch l := x.Val.(type) {
			case []int64:
				if len(l) == 0 {
					x.Val = []string{}
				}
			case []string:
				if len(l) == 0 {
					x.Val = []string{}
				}
			}
		}
	})
}

var _ = math.MaxInt64

func evalDump(e *eval.Expr) string      { return eval.Dump(e) }
func evalDumpTable(e *eval.Expr) string { return eval.DumpTable(e, true) }

// foreignActivity makes the engine do unrelated work with a quite different configuration:
// compilations (valid and failing, prefix and infix, with other costs, another stateless list,
// other operators behind the same names, large list literals) and evaluations. Checks call it
// between two steps whose results must not depend on anything but their own inputs - state
// kept in pools, global memos or caches keyed by text or address then shows as a difference.
func foreignActivity(salt int) {
	cc := eval.NewConfig(eval.EnableUndefinedVariable)
	for i, n := range []string{"variable", "operator", "and", "or", "=", ">", "+", "in", "overlap", "c_id", "c_sum", "b0", "b1", "i0", "i1", "s0", "p0", "q0", "x", "a"} {
		cc.CostsMap[n] = float64((salt+i*37)%400 - 100)
	}
	for _, n := range customNames {
		n := n
		cc.OperatorMap[n] = func(*eval.Ctx, []eval.Value) (eval.Value, error) { return int64(len(n) + salt%7), nil }
	}
	cc.StatelessOperators = []string{"c_sum", "c_id", "c_cnt", "c_not", "andn"}
	cc.ConstantMap["Kb"], cc.ConstantMap["Ki"], cc.ConstantMap["Ks"] = false, int64(-salt), "foreign"
	big := "("
	for i := 0; i < 130; i++ {
		big += fmt.Sprintf(" %d", (i*131+salt)%997)
	}
	big += ")"
	srcs := []string{
		"(and (or b0 (= i0 " + fmt.Sprint(salt%9) + ")) (c_id b1) (> (+ i0 i1 (c_sum 1 2)) 2))",
		"(overlap " + big + " li0)", "(in i0 " + big + ")", `(in s0 ("a b" "c" "a" "b c" "x"))`,
		";;;; optimize: false\n(or (and b0 b1) (if b0 b1 b0))", "(and b0", "(+ 1 (no_such 2))", "(= (c_cnt) (c_cnt))",
	}
	for _, s := range srcs {
		if e, _ := SafeCompile(cc, s); e != nil {
			Safe(func() (eval.Value, error) {
				return e.Eval(&eval.Ctx{VariableFetcher: mapFetcher{"b0": salt%2 == 0, "b1": true, "i0": int64(salt), "i1": int64(3), "li0": []int64{5, 1}, "s0": "a b"}})
			})
		}
	}
	eval.EnableInfixNotation(cc)
	for _, s := range []string{"b0 && (i0 + 1 > 2 || c_id(b1))", "1 + no_such_function(2)", "a b", "!b0 ||", "if(b0, [1 -2 3], [])"} {
		SafeCompile(cc, s)
	}
}

var intTokRe = regexp.MustCompile(`^[+-]?[0-9]+$`)

// respellInts rewrites some integer literals of a prefix program into other spellings of the same
// number that the lexer accepts: leading zeros after the sign, an explicit plus sign. The choice is
// a function of the text. Tokens are re-joined with single spaces.
func respellInts(src string) string {
	toks, comments := m.Lex(src)
	if len(comments) != 0 {
		return src
	}
	h := hash64(src)
	out := make([]string, len(toks))
	for i, tk := range toks {
		txt := tk.Text
		if tk.Kind == 'a' && intTokRe.MatchString(txt) {
			sign, digits := "", txt
			if txt[0] == '-' || txt[0] == '+' {
				sign, digits = txt[:1], txt[1:]
			}
			switch (h + uint64(i)*7) % 5 {
			case 1:
				txt = sign + "0" + digits
			case 2:
				txt = sign + "00" + digits
			case 3:
				if sign == "" {
					txt = "+" + digits
				} else {
					txt = sign + "0" + digits
				}
			}
		}
		out[i] = txt
	}
	return strings.Join(out, " ")
}

// safeNewCtx builds a context with the library's NewCtxFromVars; a panic in there is a violation of
// the calling property's premise that contexts can be built at all (reported under its name).
func safeNewCtx(pid string, cc *eval.Config, vals map[string]interface{}) (*eval.Ctx, *Violation) {
	var ctx *eval.Ctx
	if o := Safe(func() (eval.Value, error) { ctx = eval.NewCtxFromVars(cc, vals); return nil, nil }); o.Panic != nil {
		return nil, Violf("%s: NewCtxFromVars panics: %v\nkey map=%v\nvalues=%v", pid, o, cc.VariableKeyMap, vals)
	}
	return ctx, nil
}

func init() {
	// the process time zone is not UTC here: "date/datetime encode to UTC Unix seconds" whatever zone the
	// process happens to run in (the models use their own civil arithmetic and never look at time.Local)
	time.Local = time.FixedZone("UTC+05:30", 5*3600+1800)
}
