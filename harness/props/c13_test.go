package props

import (
	"fmt"
	"strings"
	"testing"
	"time"

	"github.com/onheap/eval"
	"pgregory.net/rapid"

	m "verifharness/model"
)

// C13 – Dump decompiles to an equivalent, re-compilable expression.

type C13Case struct {
	U      Universe `json:"u"`
	Tree   *m.Node  `json:"tree"`
	Infix  bool     `json:"infix,omitempty"` // compile the source in infix notation
	Masks  []int    `json:"masks"`
	Events int      `json:"events,omitempty"`
	Src    string   `json:"src"`
	Origin string   `json:"origin,omitempty"`
	// Probe: Src is written in a literal syntax the lexer may or may not accept (other quote characters,
	// other integer spellings). If Compile rejects it the case is set aside; if it is accepted it is a
	// literal "the lexer can produce" and the round trip must hold for it like for any other.
	Probe bool `json:"probe,omitempty"`
}

var hostileRunes = []rune{'%', '%', 's', 'd', 'v', '!', '$', '{', '}', '*', '+', '?', '|', '^', '&', '<', '>', '=', '~', '@', '/', ':', 'a', ' ', ' ', '(', ')', '[', ']', ';', ',', '\\', '\n', '\r', '\t', ' ', 'é', '😀', '�', '\'', '`', '#', '-', '.', '0', 'n', 't', ' ', '　', 'x'}

// multi-character sequences that text-level passes (line-ending normalisation, space
// collapsing, escaping, trimming) treat specially
var hostileFragments = []string{"\r\r\n", "\r\r\n\n", "\r\n", "\r\n", "\n\n", "\n\r", "\r", "  ", "\t\t", " \n ", "\n  ", ") (", "((", "))", ";;", ";;;;", ", ", "\\n", "%%", "\u00a0\u00a0", " \t ", "\r\n\r\n"}

var hostileStringPool = []string{"a\r\r\nb", "\r\r\n", "line one\r\nline two", "\r\n", "x\r\n", "\r\ny", "a\rb", "50%% off", "100%", "a%sb", "%d", "%v%v", "%!s(MISSING)", "${x}", "$1", "{{.}}", "a*b?", "<tag>", "x=y&z", `a\b`, "a\nb", "é z", "a  b", "a(b", "a;b", ")", "(", ";", ";;;; optimize:false", `\`, `\\`, `\n`, " lead", "trail ", "\n", "a\r\nb", "tab\there", "[x]", "a,b", "'q'", "😀", "�", " ", "", "(and a b)", "1", "true", "x y z"}

func genHostileString(t *rapid.T) string {
	if rapid.Bool().Draw(t, "hpool") {
		return rapid.SampledFrom(hostileStringPool).Draw(t, "hstr")
	}
	n := rapid.IntRange(0, 6).Draw(t, "hlen")
	var sb strings.Builder
	for i := 0; i < n; i++ {
		if rapid.IntRange(0, 3).Draw(t, "hfrag") == 0 {
			sb.WriteString(rapid.SampledFrom(hostileFragments).Draw(t, "hfragment"))
		} else {
			sb.WriteRune(rapid.SampledFrom(hostileRunes).Draw(t, "hrune"))
		}
	}
	return strings.ReplaceAll(sb.String(), `"`, "'") // a literal cannot contain a double quote
}

// hostileLiterals replaces string literals (and list elements) by layout-sensitive ones.
func hostileLiterals(t *rapid.T, tree *m.Node, p int) {
	// the text handed to a version / date operator decides whether the call succeeds - and the
	// generator relies on it (a deliberately failing operand of an and/or must stay failing, or the
	// program leaves the domain "and/or operands are boolean or always failing"): those literals stay
	keep := map[*m.Node]bool{}
	tree.Walk(func(x *m.Node) {
		if x.Kind == m.KOp {
			switch m.Aliases[x.Name] {
			case "version", "date", "datetime", "t_time", "td_time", "td_date":
				for _, k := range x.Kids {
					keep[k] = true
				}
			}
		}
	})
	tree.Walk(func(x *m.Node) {
		if x.Kind != m.KConst || x.Name != "" || keep[x] {
			return
		}
		switch v := x.Val.(type) {
		case string:
			if rapid.IntRange(0, p).Draw(t, "hostile") == 0 {
				x.Val = genHostileString(t)
			}
		case []string:
			l := append([]string{}, v...)
			for i := range l {
				if rapid.IntRange(0, p).Draw(t, "hostile") == 0 {
					l[i] = genHostileString(t)
				}
			}
			x.Val = l
		}
	})
}

// hostileNames renames variables to identifiers with dots, underscores and non-ASCII letters.
func hostileNames(t *rapid.T, tree *m.Node, u *Universe) {
	ren := map[string]string{}
	for i := range u.Vars {
		old := u.Vars[i].Name
		var nn string
		switch rapid.IntRange(0, 5).Draw(t, "rename") {
		case 0:
			nn = old + "_x"
		case 1:
			nn = "ä" + old
		case 2:
			nn = old + ".f"
		case 3:
			nn = "_" + old
		case 4:
			nn = "user.ünï." + old
		default:
			nn = old
		}
		for _, c := range u.Consts { // keep const > variable collisions out of the renaming
			if c.Name == old {
				nn = old
			}
		}
		ren[old] = nn
		u.Vars[i].Name = nn
	}
	tree.Walk(func(x *m.Node) {
		if x.Kind == m.KVar {
			x.Name = ren[x.Name]
		}
	})
}

func genC13(t *rapid.T) C13Case {
	g := &G{t: t, GenCfg: GenCfg{
		Depth:    rapid.IntRange(1, depthMax(5, 7)).Draw(t, "depth"),
		MaxArity: rapid.IntRange(2, 5).Draw(t, "maxarity"),
		Failing:  rapid.IntRange(0, 3).Draw(t, "failing") == 0,
		Custom:   true, Stateful: true, Consts: true, Aliases: true, StrBias: true,
	}}
	c := C13Case{Infix: rapid.IntRange(0, 3).Draw(t, "infix") == 0, Events: pickW(t, "events", 4, 2, 2, 1)}
	var tree *m.Node
	if c.Infix {
		tree = g.Program(rootTy(t))
		normSymbolic(tree)
	} else {
		tree = wrapRoot(g.Program(rootTy(t)))
	}
	fixEmptyLists(tree)
	u := UniverseFor(t, tree, false)
	u.Stateless = drawStateless(t)
	hostileLiterals(t, tree, 1)
	for i := range u.Consts { // string constants may be hostile too (anything a literal can denote)
		if _, ok := u.Consts[i].Val.X.(string); ok && rapid.Bool().Draw(t, "hconst") {
			hv := genHostileString(t)
			u.Consts[i].Val.X = hv
			name := u.Consts[i].Name
			tree.Walk(func(x *m.Node) {
				if x.Kind == m.KConst && x.Name == name {
					x.Val = hv
				}
			})
		}
	}
	hostileNames(t, tree, u)
	operatorLikeNames(t, tree, u)
	unicodeNames(t, tree, u)
	c.U, c.Tree = *u, tree
	if Thorough() {
		for mask := 0; mask < 16; mask++ {
			c.Masks = append(c.Masks, mask)
		}
	} else {
		c.Masks = []int{0, 15, rapid.IntRange(1, 14).Draw(t, "mask")}
	}
	if c.Infix {
		c.Src = m.RenderInfix(tree, m.InfixOpts{})
	} else {
		c.Src = m.Render(tree)
	}
	return c
}

// rebind derives the k-th binding from the universe's own (k = 0 is the original).
func rebind(u *Universe, k int) map[string]interface{} {
	out := u.Bound()
	if k == 0 {
		return out
	}
	for _, v := range u.Vars {
		if v.Mode != 0 {
			continue
		}
		h := int(hash64(v.Name)%97) + k
		switch x := v.Val.X.(type) {
		case bool:
			out[v.Name] = x != (h%2 == 0)
		case int64:
			out[v.Name] = x + int64(k)
		case string:
			out[v.Name] = strPool[h%len(strPool)]
		case []int64:
			out[v.Name] = append([]int64{int64(h % 5)}, x...)
		case []string:
			out[v.Name] = append([]string{strElemPool[h%len(strElemPool)]}, x...)
		}
	}
	return out
}

func layoutSensitive(s string) bool {
	for _, r := range s {
		if !(r >= 'a' && r <= 'z' || r >= 'A' && r <= 'Z' || r >= '0' && r <= '9' || r == '_' || r == '.' || r == '-') {
			return true
		}
	}
	return false
}

func checkC13(c C13Case, r *Rec) *Violation {
	u := &c.U
	src := c.Src
	if src == "" {
		if c.Infix {
			src = m.RenderInfix(c.Tree, m.InfixOpts{})
		} else {
			src = m.Render(c.Tree)
		}
	}
	sensitive := false
	c.Tree.Walk(func(x *m.Node) {
		if x.Kind == m.KConst {
			switch v := x.Val.(type) {
			case string:
				sensitive = sensitive || layoutSensitive(v)
			case []string:
				for _, s := range v {
					sensitive = sensitive || layoutSensitive(s)
				}
			}
		}
	})
	for _, mask := range c.Masks {
		log := &Log{}
		cc, _ := NewConfig(u, log, Build{Mask: mask, Infix: c.Infix})
		e, co := SafeCompile(cc, src)
		if c.Probe && co.Panic == nil && co.Err != nil {
			r.Class("probe-of-another-literal-syntax:rejected-by-compile")
			return nil
		}
		if c.Probe {
			r.Class("probe-of-another-literal-syntax:accepted")
		}
		if co.Panic != nil || co.Err != nil {
			return Violf("C13: the source does not compile: %v\nsrc=%q infix=%v", co, src, c.Infix)
		}
		d, o := SafeStr(func() string { return eval.Dump(e) })
		if o.Panic != nil {
			return Violf("C13: Dump panics: %v\nsrc=%q", o, src)
		}
		where := func() string {
			return fmt.Sprintf("config=%s infix-source=%v\nsrc =%q\ndump=%q", maskName(mask), c.Infix, src, d)
		}
		// event / debug mode does not change the decompiled program
		if c.Events > 0 {
			logE := &Log{}
			ccE, _ := NewConfig(u, logE, Build{Mask: mask, Infix: c.Infix, Events: c.Events})
			eE, coE := SafeCompile(ccE, src)
			if coE.Panic != nil || coE.Err != nil {
				return Violf("C13: the source does not compile in event mode: %v\n%s", coE, where())
			}
			dE, oE := SafeStr(func() string { return eval.Dump(eE) })
			if oE.Panic != nil || dE != d {
				return Violf("C13: Dump differs in event mode %d\n%s\nevent-mode dump=%q %v", c.Events, where(), dE, oE)
			}
		}
		toks, _ := m.Lex(d)
		if len(toks) == 1 && toks[0].Kind != '(' {
			r.Class("set-aside:bare-scalar-or-variable")
			continue
		}
		// the dump compiles under the same names, optimizations off, prefix notation
		if mask == c.Masks[0] {
			foreignActivity(int(hash64(src) % 1000))
		}
		log2 := &Log{}
		cc2, _ := NewConfig(u, log2, Build{Mask: 0})
		e2, co2 := SafeCompile(cc2, d)
		if co2.Panic != nil || co2.Err != nil {
			return Violf("C13: the Dump text does not compile: %v\n%s", co2, where())
		}
		d2, o2 := SafeStr(func() string { return eval.Dump(e2) })
		if o2.Panic != nil || d2 != d {
			return Violf("C13: dumping the recompiled program does not reproduce the text\n%s\nsecond dump=%q %v", where(), d2, o2)
		}
		// same function: same outcome on four bindings
		for k := 0; k < 4; k++ {
			vars := rebind(u, k)
			log.Reset()
			log2.Reset()
			f1 := &Fetcher{Vars: vars, Fail: u.Fail(), Log: log}
			f2 := &Fetcher{Vars: vars, Fail: u.Fail(), Log: log2}
			o1 := Safe(func() (eval.Value, error) { return e.Eval(f1.Ctx()) })
			oo2 := Safe(func() (eval.Value, error) { return e2.Eval(f2.Ctx()) })
			if !SameOutcome(o1, oo2) {
				// one documented latitude: with FastEvaluation a two-leaf operator takes both leaves before it
				// is applied, so an ill-typed and/or whose first leaf decides fails there and not in the
				// recompiled (unoptimized) program. Accepted only if the reference says exactly that.
				if mask&MaskFast != 0 {
					if dt, err := m.ReadDump(d); err == nil {
						rf := &m.Env{Vars: vars, Fail: u.Fail(), Custom: customModel(), Fast: true}
						rn := &m.Env{Vars: vars, Fail: u.Fail(), Custom: customModel()}
						fv, ferr := rf.Eval(dt)
						nv, nerr := rn.Eval(dt)
						if ferr != nil && nerr == nil && Agrees(o1, fv, ferr) && Agrees(oo2, nv, nerr) {
							r.Class("fast-path-takes-both-leaves")
							continue
						}
					}
				}
				return Violf("C13: the recompiled dump computes something else\n%s\nbinding=%v\noriginal=%v\nrecompiled=%v", where(), vars, o1, oo2)
			}
		}
		r.Class("round-trip")
	}
	if sensitive {
		r.Class("layout-sensitive-literal")
	}
	hasIf := false
	c.Tree.Walk(func(x *m.Node) {
		if x.Kind == m.KIf {
			hasIf = true
		}
	})
	if sensitive || hasIf {
		r.NonTrivial(src+fmt.Sprint(c.Masks, c.Infix), func() interface{} {
			return map[string]interface{}{"src": clip(src, 300), "infix_source": c.Infix, "masks": c.Masks, "origin": c.Origin}
		})
	}
	return nil
}

// sweepC13: operand counts at the engine's maximum, written directly and reached only through
// ReduceNesting, and long lists - every one must decompile and round-trip like any other program.
func sweepC13(tier string, shard, shards int, emit func(C13Case)) {
	if shard != 0 {
		return
	}
	u := Universe{RegMode: RegGetOrReg}
	for i := 0; i < 4; i++ {
		u.Vars = append(u.Vars, VarDecl{Name: fmt.Sprintf("b%d", i), Ty: m.TBool, Val: m.V{X: i%2 == 0}})
		u.Vars = append(u.Vars, VarDecl{Name: fmt.Sprintf("i%d", i), Ty: m.TInt, Val: m.V{X: int64(i)}})
	}
	// other literal syntaxes: whatever of these the lexer accepts must round-trip
	{
		pu := u
		pu.Vars = append(append([]VarDecl{}, u.Vars...), VarDecl{Name: "s0", Ty: m.TStr, Val: m.V{X: `say "hi"`}}, VarDecl{Name: "s1", Ty: m.TStr, Val: m.V{X: "a b"}})
		var probes []string
		for _, q := range [][2]string{{"'", "'"}, {"`", "`"}, {"\u201c", "\u201d"}, {"\u00ab", "\u00bb"}, {"\u2018", "\u2019"}, {`"""`, `"""`}, {`\"`, `\"`}} {
			for _, content := range []string{`say "hi"`, `a b`, `it's`, `a) (b`, `;x`, `"`, ``} {
				lit := q[0] + content + q[1]
				probes = append(probes, "(= s0 "+lit+")", "(in s0 ("+lit+" "+q[0]+"z"+q[1]+"))", "(if b0 "+lit+" s1)", "("+lit+" "+lit+")")
			}
		}
		for _, n := range []string{"0x1F", "0X1f", "1_000", "1e3", "0b101", "0o17", "017", "+5", "-0", "+0", "1.0", "1.", ".5", "१२", "１２", "0x", "1e", "--1", "+-1", "9223372036854775808", "-9223372036854775808", "-9223372036854775809", "00", "-00", "0_0"} {
			probes = append(probes, "(= i0 "+n+")", "(in i0 ("+n+" 2))", "(+ i0 "+n+" 1)", "("+n+" "+n+")")
		}
		for _, w := range []string{"TRUE", "True", "FALSE", "nil", "null", "NaN", "#t", "t"} {
			probes = append(probes, "(and b0 "+w+")", "(= b0 "+w+")", "(if "+w+" 1 2)")
		}
		for i, p := range probes {
			emit(C13Case{U: pu, Tree: m.Op("and", m.Var("b0"), m.Var("b1")), Src: p, Masks: []int{0, 15}, Events: i % 3, Origin: "probe", Probe: true})
		}
	}
	wideOf := func(op string, n int, bools bool) *m.Node {
		nd := m.Op(op)
		for i := 0; i < n; i++ {
			if bools {
				nd.Kids = append(nd.Kids, m.Var(fmt.Sprintf("b%d", i%4)))
			} else {
				nd.Kids = append(nd.Kids, m.Var(fmt.Sprintf("i%d", i%4)))
			}
		}
		return nd
	}
	for _, n := range []int{2, 63, 64, 65, 125, 126, 127} {
		for _, ev := range []int{0, 1} {
			emit(C13Case{U: u, Tree: wideOf("and", n, true), Masks: []int{0, 15, 2}, Events: ev, Origin: "sweep-wide"})
			emit(C13Case{U: u, Tree: wideOf("+", n, false), Masks: []int{0, 15}, Events: ev, Origin: "sweep-wide"})
			emit(C13Case{U: u, Tree: m.Op("=", wideOf("c_sum", n, false), m.Const(int64(1))), Masks: []int{0, 4}, Events: ev, Origin: "sweep-wide"})
			if n > 30 { // the count is reached only after ReduceNesting merged the inner operator
				outer := wideOf("or", n-27, true)
				outer.Kids = append(outer.Kids, wideOf("or", 27, true))
				emit(C13Case{U: u, Tree: outer, Masks: []int{0, 2, 15}, Events: ev, Origin: "sweep-wide-after-flattening"})
			}
		}
	}
	// deep programs: Dump's text grows with the square of the nesting depth (two more columns per level),
	// and the dump of a flat infix chain is nested as deep as the chain is long - it must still compile
	depths := []int{1100, 1600}
	if tier == "thorough" {
		depths = []int{200, 999, 1000, 1001, 1100, 1450, 1600}
	}
	for _, d := range depths {
		right := m.Op("+", m.Var("i0"), m.Var("i1"))
		left := m.Op("+", m.Var("i0"), m.Var("i1"))
		nots := m.Var("b1")
		for i := 0; i < d; i++ {
			right = m.Op("+", m.Var(fmt.Sprintf("i%d", i%4)), right)
			left = m.Op("+", left, m.Var(fmt.Sprintf("i%d", i%4)))
			nots = m.Op("not", nots)
		}
		// (the engine's Dump takes seconds at these depths: the quick tier keeps to three programs)
		if tier != "thorough" {
			if d == 1100 {
				emit(C13Case{U: u, Tree: left, Infix: true, Masks: []int{0}, Origin: "sweep-long-infix-chain"})
				emit(C13Case{U: u, Tree: nots, Masks: []int{0}, Origin: "sweep-deep-not"})
			} else {
				emit(C13Case{U: u, Tree: right, Masks: []int{0}, Origin: "sweep-deep-right"})
			}
			continue
		}
		emit(C13Case{U: u, Tree: right, Masks: []int{0}, Origin: "sweep-deep-right"})
		emit(C13Case{U: u, Tree: nots, Masks: []int{0, 15}, Origin: "sweep-deep-not"})
		emit(C13Case{U: u, Tree: left, Infix: true, Masks: []int{0}, Origin: "sweep-long-infix-chain"})
		emit(C13Case{U: u, Tree: m.If(m.Var("b0"), left, right), Masks: []int{0}, Events: 1, Origin: "sweep-deep-both"})
	}
	for _, n := range []int{15, 16, 17, 31, 32, 33, 100, 255, 256, 257} {
		li, ls := make([]int64, n), make([]string, n)
		for i := range li {
			li[i], ls[i] = int64(i*7%13-3), fmt.Sprintf("s %d", i%9)
		}
		emit(C13Case{U: u, Tree: m.Op("or", m.Op("in", m.Var("i1"), m.Const(li)), m.Op("overlap", m.Const(ls), m.Const([]string{"s 1", "zz"}))), Masks: []int{0, 1, 15}, Origin: "sweep-long-lists"})
	}
}

var propC13 = Prop[C13Case]{
	ID:    "C13",
	Rule:  "typed random trees (prefix and infix sources) whose string literals, string-list elements and string constants are replaced by layout-sensitive ones (spaces, parentheses, brackets, semicolons, commas, backslashes, \\n \\r \\t, NBSP and other Unicode spaces, non-ASCII runes, U+FFFD, directive look-alikes, empty), variables renamed to identifiers with dots/underscores/non-ASCII letters, int literals at the extremes; x optimization subsets (3 per case quick, 16 thorough) x event mode. Oracle (round trip): Dump(e) compiles in prefix notation under the same names with optimizations off; dumping that program reproduces the text exactly; e and the recompiled program return the same outcome on 4 bindings; Dump is identical with ReportEvent/Debug. Sweep: wide calls, long list literals, and programs nested 1100 / 1600 levels deep (200..1600 thorough) - right-nested, left-nested through a flat infix chain, chains of not. Programs folded to a bare scalar are set aside and counted. Non-trivial = a literal with a character outside [A-Za-z0-9_.-], or an if; distinct by source + subsets",
	Gen:   genC13,
	Check: checkC13,
	Sweep: sweepC13,
	Limit: 15 * time.Minute, // (the engine's Dump needs tens of seconds on the deepest sweep programs, more on a loaded machine)
}

func TestC13(t *testing.T)       { Run(t, propC13) }
func TestC13Replay(t *testing.T) { Replay(t, propC13) }

// FuzzC13: bytes -> one string literal placed into fixed program shapes.
func FuzzC13(f *testing.F) {
	for _, s := range hostileStringPool {
		f.Add(s, uint8(0))
		f.Add(s, uint8(7))
	}
	f.Fuzz(func(t *testing.T, lit string, sel uint8) {
		if strings.ContainsRune(lit, '"') || len(lit) > 200 {
			return
		}
		shapes := []func(s string) *m.Node{
			func(s string) *m.Node { return m.Op("=", m.Var("s0"), m.Const(s)) },
			func(s string) *m.Node { return m.Op("in", m.Var("s0"), m.Const([]string{"a", s, s + "x"})) },
			func(s string) *m.Node {
				return m.Op("and", m.Op("=", m.Var("s0"), m.Const(s)), m.Op("or", m.Var("b0"), m.Op("!=", m.Const(s), m.Var("s1"))))
			},
			func(s string) *m.Node { return m.If(m.Var("b0"), m.Op("c_cat", m.Const(s), m.Var("s0")), m.Const(s)) },
		}
		tree := wrapRoot(shapes[int(sel)%len(shapes)](lit))
		u := Universe{Vars: []VarDecl{
			{Name: "b0", Ty: m.TBool, Val: m.V{X: true}}, {Name: "s0", Ty: m.TStr, Val: m.V{X: lit}}, {Name: "s1", Ty: m.TStr, Val: m.V{X: "z"}},
		}}
		c := C13Case{U: u, Tree: tree, Masks: []int{0, int(sel>>2) & 15}, Events: int(sel>>6) % 3, Origin: "native-fuzz"}
		wdStart("C13", c, 120e9)
		v := checkC13(c, newRec("C13"))
		wdStop()
		if v != nil {
			t.Fatalf("VIOLATION-DETAIL property=C13\n%s", v.Msg)
		}
	})
}
