package props

import (
	"fmt"
	"testing"

	"github.com/onheap/eval"
	"pgregory.net/rapid"

	m "verifharness/model"
)

// C01 – Eval computes the documented left-to-right short-circuit semantics.

type C01Case struct {
	U    Universe `json:"u"`
	Tree *m.Node  `json:"tree"`
	How  int      `json:"how"`
	Var  int      `json:"variant"`
	Src  string   `json:"src"` // informational
}

func genC01(t *rapid.T) C01Case {
	g := &G{t: t, GenCfg: GenCfg{
		Depth:    rapid.IntRange(1, depthMax(6, 9)).Draw(t, "depth"),
		MaxArity: rapid.IntRange(2, arityMax(6, 10)).Draw(t, "maxarity"),
		Failing:  rapid.Bool().Draw(t, "failing"),
		BadVars:  rapid.Bool().Draw(t, "badvars"),
		Custom:   true, Stateful: true, Consts: true, Aliases: true,
	}}
	tree := wrapRoot(g.Program(rootTy(t)))
	fixEmptyLists(tree)
	u := UniverseFor(t, tree, rapid.IntRange(0, 4).Draw(t, "collide") == 0)
	operatorLikeNames(t, tree, u)
	c := C01Case{U: *u, Tree: tree, How: rapid.IntRange(0, howModes-1).Draw(t, "how"), Var: rapid.IntRange(0, directiveVariants-1).Draw(t, "variant")}
	c.Src = m.Render(tree)
	return c
}

func depthMax(quick, thorough int) int {
	if Thorough() {
		return thorough
	}
	return quick
}

func arityMax(quick, thorough int) int { return depthMax(quick, thorough) }

func describeU(u *Universe) map[string]string {
	out := map[string]string{}
	for _, v := range u.Vars {
		switch v.Mode {
		case 0:
			out[v.Name] = renderAny(v.Val.X)
		case 1:
			out[v.Name] = "<fetch fails>"
		default:
			out[v.Name] = "<unbound>"
		}
	}
	for _, c := range u.Consts {
		out["const "+c.Name] = renderAny(c.Val.X)
	}
	return out
}

func checkC01(c C01Case, r *Rec) *Violation {
	u := &c.U
	src := m.Render(c.Tree)
	if hash64(src)%4 == 0 {
		// the same program with some integer literals spelled differently (leading zeros, plus sign)
		if alt := respellInts(src); alt != src {
			src = alt
			r.Class("integer-literals-respelled")
		}
	}
	log := &Log{}
	cc, prefix := NewConfig(u, log, Build{Mask: 0, How: c.How, Variant: c.Var})
	e, co := SafeCompile(cc, prefix+src)
	if co.Panic != nil || co.Err != nil || e == nil {
		return Violf("C01: well-formed expression does not compile\nsrc=%s\noutcome=%v", src, co)
	}
	if len(log.Ev) != 0 {
		return Violf("C01: Compile with optimizations disabled invoked operators: %v\nsrc=%s", m.TraceStrings(log.Ev), src)
	}

	newRef := func() *m.Env {
		return &m.Env{Vars: u.Bound(), Fail: u.Fail(), Custom: customModel(), Calls: log.Calls()}
	}
	describe := func() string {
		return fmt.Sprintf("src=%s\nbinding=%v\nregmode=%d keybase=%d how=%d", src, describeU(u), u.RegMode, u.KeyBase, c.How)
	}

	// (1) Expr.Eval through the instrumented fetcher: value, error class, effects
	ref := newRef()
	rv, rerr := ref.Eval(c.Tree)
	f := NewFetcher(u, cc, log)
	o := Safe(func() (eval.Value, error) { return e.Eval(f.Ctx()) })
	if !Agrees(o, rv, rerr) {
		return Violf("C01: Eval disagrees with the reference semantics\n%s\nengine=%v\nreference=%s", describe(), o, refString(rv, rerr))
	}
	if !MatchTrace(log.Ev, ref.Trace) {
		return Violf("C01: effects differ from left-to-right short-circuit evaluation\n%s\nengine   =%v\nreference=%v", describe(), m.TraceStrings(log.Ev), m.TraceStrings(ref.Trace))
	}
	if len(log.KeyErrs) != 0 {
		return Violf("C01: variable fetched under a wrong key: %v\n%s", log.KeyErrs, describe())
	}

	// (2) EvalBool
	log.Reset()
	ref2 := newRef()
	rv2, rerr2 := ref2.Eval(c.Tree)
	var ob Outcome
	{
		f := NewFetcher(u, cc, log)
		ob = Safe(func() (eval.Value, error) { return e.EvalBool(f.Ctx()) })
	}
	switch {
	case ob.Panic != nil:
		return Violf("C01: EvalBool panics\n%s\n%v", describe(), ob)
	case rerr2 != nil:
		if !Agrees(ob, nil, rerr2) {
			return Violf("C01: EvalBool error differs\n%s\nengine=%v\nreference=%s", describe(), ob, refString(rv2, rerr2))
		}
	default:
		if b, isBool := rv2.(bool); isBool {
			if ob.Err != nil || ob.Val != b {
				return Violf("C01: EvalBool differs\n%s\nengine=%v\nreference=%v", describe(), ob, b)
			}
		} else if ob.Err == nil {
			return Violf("C01: EvalBool accepts a non-boolean result\n%s\nengine=%v\nreference=%s", describe(), ob, refString(rv2, nil))
		}
	}

	// (3) the repository's own fetchers and the one-shot entry point, when every variable is bound
	if u.AllBound() {
		vals := map[string]interface{}{}
		for _, v := range u.Vars {
			vals[v.Name] = v.Val.X
		}
		log.Reset()
		ref3 := newRef()
		rv3, rerr3 := ref3.Eval(c.Tree)
		o3 := Safe(func() (eval.Value, error) { return e.Eval(eval.NewCtxFromVars(cc, vals)) })
		if !Agrees(o3, rv3, rerr3) {
			return Violf("C01: Eval with NewCtxFromVars disagrees with the reference\n%s\nengine=%v\nreference=%s", describe(), o3, refString(rv3, rerr3))
		}
		log.Reset()
		ref4 := newRef()
		rv4, rerr4 := ref4.Eval(c.Tree)
		if hash64(src)%8 == 0 {
			foreignActivity(int(hash64(src) % 1000))
		}
		// the one-shot helper gets a bindings map that also holds names the config does not know
		vals4 := map[string]interface{}{"zz_unrelated_1": int64(900000), "zz_unrelated_2": "x", "zz_unrelated_3": true}
		for k, v := range vals {
			vals4[k] = v
		}
		o4 := Safe(func() (eval.Value, error) { return eval.Eval(prefix+src, vals4, eval.ExtendConf(cc)) })
		if !Agrees(o4, rv4, rerr4) {
			return Violf("C01: one-shot eval.Eval disagrees with the reference\n%s\nengine=%v\nreference=%s", describe(), o4, refString(rv4, rerr4))
		}
		r.Class("repo-fetchers")
	}

	// evidence
	all := newRef()
	_, allOK := all.EvalAll(c.Tree, nil)
	if ref.ShortCircuits > 0 {
		r.Class("short-circuit")
	}
	if rerr != nil {
		r.Class("error:" + m.ErrClass(rerr))
	}
	if rerr == nil && !allOK {
		r.Class("skipped-part-would-fail")
	}
	if ref.ShortCircuits > 0 || rerr != nil || !allOK {
		r.NonTrivial(src+fmt.Sprint(describeU(u)), func() interface{} {
			return map[string]interface{}{"src": clip(src, 300), "binding": describeU(u), "result": refString(rv, rerr), "effects": m.TraceStrings(ref.Trace)}
		})
	}
	return nil
}

var propC01 = Prop[C01Case]{
	ID:    "C01",
	Rule:  "typed random expression trees over all built-in operators/aliases, if, literals, named constants, variables (incl. failing/unbound) and custom operators, compiled with all optimizations disabled and compared with the reference evaluator R (value, error class via errors.Is, effect trace; Eval, EvalBool, NewCtxFromVars, one-shot Eval). Non-trivial = R short-circuited past a later operand, or ended in an error, or an unevaluated part (skipped operand / untaken branch) would have failed; distinct by source text + binding",
	Gen:   genC01,
	Check: checkC01,
}

func TestC01(t *testing.T)       { Run(t, propC01) }
func TestC01Replay(t *testing.T) { Replay(t, propC01) }
