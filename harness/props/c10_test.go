package props

import (
	"fmt"
	"testing"

	"github.com/onheap/eval"
	"pgregory.net/rapid"

	m "verifharness/model"
)

// C10 – constant folding respects operator purity and defers failures to run time.

type C10Case struct {
	U     Universe    `json:"u"`
	Tree  *m.Node     `json:"tree"`
	Costs []CostEntry `json:"costs,omitempty"`
	K     int         `json:"k"` // number of repeated evaluations
	Src   string      `json:"src"`
}

func genC10(t *rapid.T) C10Case {
	g := &G{t: t, GenCfg: GenCfg{
		Depth:    rapid.IntRange(1, depthMax(5, 7)).Draw(t, "depth"),
		MaxArity: rapid.IntRange(2, 4).Draw(t, "maxarity"),
		Failing:  rapid.IntRange(0, 2).Draw(t, "failing") != 0,
		Custom:   true, Stateful: true, Consts: true, Aliases: true, BoolW: 6,
		VarW: rapid.SampledFrom([]int{1, 1, 4}).Draw(t, "varw"),
	}}
	tree := wrapRoot(g.Program(rootTy(t)))
	fixEmptyLists(tree)
	// now and then a well-typed constant call is followed by its ill-typed twin: the same
	// operator over arguments that PRINT the same but have another type ("1" for 1). The first
	// folds, the second must stay and fail at run time.
	if rapid.IntRange(0, 4).Draw(t, "twin") == 0 {
		op := rapid.SampledFrom([]string{"+", "-", "*", "add", "c_sum", "="}).Draw(t, "twin_op")
		a, b := rapid.Int64Range(0, 3).Draw(t, "twin_a"), rapid.Int64Range(0, 3).Draw(t, "twin_b")
		good := m.Op(op, m.Const(a), m.Const(b))
		bad := m.Op(op, m.Const(fmt.Sprint(a)), m.Const(b))
		if rapid.Bool().Draw(t, "twin_bool") {
			bad = m.Op(op, m.Const(a), m.Const(fmt.Sprint(b)))
		}
		tree = m.If(m.Op("eq", good, bad), tree, tree.Clone())
	}
	// now and then a constant call over LARGE list literals (the built-in list operators switch to
	// another algorithm at a hundred elements): folded with a nil context like any other constant call
	if rapid.IntRange(0, 7).Draw(t, "biglists") == 0 {
		na, nb := rapid.SampledFrom([]int{3, 40, 60, 99, 100, 120}).Draw(t, "big_na"), rapid.SampledFrom([]int{1, 50, 60, 100, 130}).Draw(t, "big_nb")
		mk := func(n, mul, off int) []int64 {
			l := make([]int64, n)
			for i := range l {
				l[i] = int64((i*mul + off) % 1013)
			}
			return l
		}
		a, b := mk(na, 7, 3), mk(nb, 11, rapid.IntRange(0, 5).Draw(t, "big_off"))
		var call *m.Node
		switch rapid.IntRange(0, 2).Draw(t, "big_call") {
		case 0:
			call = m.Op("overlap", m.Const(a), m.Const(b))
		case 1:
			call = m.Op("in", m.Const(b[len(b)-1]), m.Const(a))
		default:
			sa, sb := make([]string, len(a)), make([]string, len(b))
			for i, x := range a {
				sa[i] = elemStr(x)
			}
			for i, x := range b {
				sb[i] = elemStr(x)
			}
			call = m.Op("overlap", m.Const(sb), m.Const(sa))
		}
		tree = m.If(call, tree, tree.Clone())
	}
	u := UniverseFor(t, tree, false)
	u.Stateless = drawStateless(t)
	operatorLikeNames(t, tree, u)
	// sometimes the integer constant is registered with a raw Go type (int, int32). What an operator
	// makes of such a value is not modelled here; the point is that the compile-time call of a folded
	// operator must see what the run-time call would see, so for these cases the engine itself,
	// unoptimized, is the oracle for every folded place (checkC10, rawConsts).
	if rapid.IntRange(0, 3).Draw(t, "rawconst") == 0 {
		for i := range u.Consts {
			if _, isInt := u.Consts[i].Val.X.(int64); isInt {
				var raw interface{} = int(777001)
				if rapid.Bool().Draw(t, "rawint32") {
					raw = int32(777002)
				}
				u.Consts[i].Val.X = raw
				name := u.Consts[i].Name
				tree.Walk(func(x *m.Node) {
					if x.Kind == m.KConst && x.Name == name {
						x.Val = raw
					}
				})
				if rapid.IntRange(0, 2).Draw(t, "rawfail") == 0 {
					// a failing registered operator applied to the raw-typed constant (and a literal), in a branch
					tree = m.If(m.Var("b0"), m.Op("=", m.Op("c_fail", m.NamedConst(name, raw), m.Const(int64(1)), m.Const(int64(2))), m.Const(int64(0))), tree)
					if u.Var("b0") == nil {
						u.Vars = append(u.Vars, VarDecl{Name: "b0", Ty: m.TBool, Val: m.V{X: true}})
					}
				}
			}
		}
	}
	return C10Case{U: *u, Tree: tree, Costs: genCosts(t, tree, finiteCosts), K: rapid.IntRange(1, 5).Draw(t, "k"), Src: m.Render(tree)}
}

// restoreRawConstants: Dump prints a raw-typed constant (int, int32) like an int64
// literal; the sentinel values used for them are mapped back to the registered value.
func restoreRawConstants(dt *m.Node, u *Universe) {
	raw := map[int64]interface{}{}
	for _, c := range u.Consts {
		switch v := c.Val.X.(type) {
		case int:
			raw[int64(v)] = v
		case int32:
			raw[int64(v)] = v
		}
	}
	if len(raw) == 0 {
		return
	}
	dt.Walk(func(x *m.Node) {
		if x.Kind == m.KConst {
			if v, ok := x.Val.(int64); ok {
				if r, isRaw := raw[v]; isRaw {
					x.Val = r
				}
			}
		}
	})
}

// foldable: may the sub-tree be replaced by a constant under the rule C10 states?
func foldable(n *m.Node, stateless map[string]bool) (interface{}, bool) {
	switch n.Kind {
	case m.KConst:
		return n.Val, true
	case m.KVar:
		return nil, false
	case m.KIf:
		c, ok := foldable(n.Kids[0], stateless)
		if !ok {
			return nil, false
		}
		b, isBool := c.(bool)
		if !isBool {
			return nil, false
		}
		if b {
			return foldable(n.Kids[1], stateless)
		}
		return foldable(n.Kids[2], stateless)
	}
	builtin := m.IsBuiltin(n.Name)
	if !builtin && !stateless[n.Name] {
		return nil, false
	}
	and, or := m.IsAnd(n.Name), m.IsOr(n.Name)
	args := make([]interface{}, 0, len(n.Kids))
	all := true
	for _, k := range n.Kids {
		v, ok := foldable(k, stateless)
		if ok {
			if b, isBool := v.(bool); isBool && ((and && !b) || (or && b)) {
				return b, true // an operand that folds to the absorbing value decides, whatever the siblings are
			}
		}
		if !ok {
			all = false
		}
		args = append(args, v)
	}
	if !all {
		return nil, false
	}
	if builtin {
		f, _ := m.Builtin(n.Name)
		v, err := f(args)
		return v, err == nil
	}
	v, err := customModel()[n.Name](args, 0)
	return v, err == nil
}

// engineFoldable is foldable() with the unoptimized engine in the place of the operator model: the
// tree is rewritten bottom-up - an and/or with an operand that is variable-free and evaluates to the
// absorbing value becomes that value, an if with a variable-free condition becomes the chosen branch
// - and what remains must be variable-free and evaluate.
func engineFoldable(n *m.Node, engineSays func(*m.Node) (interface{}, bool)) (interface{}, bool) {
	var rewrite func(n *m.Node) *m.Node
	rewrite = func(n *m.Node) *m.Node {
		if n.IsLeaf() {
			return n
		}
		c := &m.Node{Kind: n.Kind, Name: n.Name, Val: n.Val}
		for _, k := range n.Kids {
			c.Kids = append(c.Kids, rewrite(k))
		}
		switch {
		case c.Kind == m.KIf:
			if len(c.Kids[0].VarNames()) == 0 {
				if v, ok := engineSays(c.Kids[0]); ok {
					if b, isBool := v.(bool); isBool {
						if b {
							return c.Kids[1]
						}
						return c.Kids[2]
					}
				}
			}
		case c.Kind == m.KOp && (m.IsAnd(c.Name) || m.IsOr(c.Name)):
			for _, k := range c.Kids {
				if len(k.VarNames()) == 0 {
					if v, ok := engineSays(k); ok {
						if b, isBool := v.(bool); isBool && b == m.IsOr(c.Name) {
							return m.Const(b)
						}
					}
				}
			}
		}
		return c
	}
	t := rewrite(n)
	if len(t.VarNames()) != 0 {
		return nil, false
	}
	return engineSays(t)
}

// foldingSound walks the source tree and the tree dumped with only
// ConstantFolding enabled in parallel.
func foldingSound(src, dump *m.Node, stateless map[string]bool, engineSays ...func(*m.Node) (interface{}, bool)) string {
	if dump.Kind == m.KConst && src.Kind != m.KConst && len(engineSays) > 0 {
		// raw-typed constants in play: the folded value must be what the unoptimized engine computes,
		// or what an operand of an and/or that folds to the absorbing value decides
		v, ok := engineFoldable(src, engineSays[0])
		if !ok {
			return fmt.Sprintf("%s was folded to %s, but evaluating it (unoptimized) fails", m.Render(src), m.RenderVal(dump.Val))
		}
		// (Dump prints an integer of whatever Go type as the same digits: compare the numbers)
		if !m.EqualVal(normalise(v), normalise(dump.Val)) {
			return fmt.Sprintf("%s was folded to %s, evaluated (unoptimized) it gives %v (%T)", m.Render(src), m.RenderVal(dump.Val), v, v)
		}
		return ""
	}
	if dump.Kind == m.KConst && src.Kind != m.KConst {
		v, ok := foldable(src, stateless)
		if !ok {
			return fmt.Sprintf("%s was folded to %s but is not a foldable constant expression", m.Render(src), m.RenderVal(dump.Val))
		}
		if !m.EqualVal(v, dump.Val) {
			return fmt.Sprintf("%s was folded to %s, its value is %s", m.Render(src), m.RenderVal(dump.Val), m.RenderVal(v))
		}
		return ""
	}
	if src.Kind != dump.Kind || len(src.Kids) != len(dump.Kids) || (src.Kind != m.KConst && src.Name != dump.Name) {
		return fmt.Sprintf("%s became %s", m.Render(src), m.Render(dump))
	}
	if src.Kind == m.KConst && !m.EqualVal(src.Val, dump.Val) {
		return fmt.Sprintf("constant %s became %s", m.RenderVal(src.Val), m.RenderVal(dump.Val))
	}
	for i := range src.Kids {
		if why := foldingSound(src.Kids[i], dump.Kids[i], stateless, engineSays...); why != "" {
			return why
		}
	}
	return ""
}

func checkC10(c C10Case, r *Rec) *Violation {
	u := &c.U
	src := m.Render(c.Tree)
	stateless := map[string]bool{}
	for _, s := range u.Stateless {
		stateless[s] = true
	}
	pureOnly := true
	c.Tree.Walk(func(x *m.Node) {
		if x.Kind == m.KOp && x.Name == "c_cnt" {
			pureOnly = false
		}
	})
	ref := &m.Env{Vars: u.Bound(), Fail: u.Fail(), Custom: customModel()}
	rv, rerr := ref.Eval(c.Tree)
	rawConsts := false
	for _, kc := range u.Consts {
		switch kc.Val.X.(type) {
		case int, int32:
			rawConsts = true
		}
	}
	// the unoptimized engine as operator oracle (raw-constant cases only)
	engineSays := func(sub *m.Node) (interface{}, bool) {
		cc0, _ := NewConfig(u, &Log{}, Build{Mask: 0, Pure: true})
		e0, co := SafeCompile(cc0, m.Render(wrapRoot(sub.Clone())))
		if co.Panic != nil || co.Err != nil {
			return nil, false
		}
		o := Safe(func() (eval.Value, error) { return e0.Eval(NewFetcher(u, cc0, &Log{}).Ctx()) })
		return o.Val, o.Err == nil && o.Panic == nil
	}

	for mask := 0; mask < 16; mask++ {
		if mask == int(hash64(src)%16) {
			foreignActivity(int(hash64(src) % 1000)) // other configs declare other operators stateless, behind the same names
		}
		log := &Log{}
		cc, _ := NewConfig(u, log, Build{Mask: mask, How: HowMapAll, Costs: c.Costs})
		// (i) Compile succeeds whatever fails inside
		e, co := SafeCompile(cc, src)
		if co.Panic != nil || co.Err != nil {
			return Violf("C10: Compile fails on a well-formed expression (config %s): %v\nsrc=%s", maskName(mask), co, src)
		}
		d, _ := SafeStr(func() string { return eval.Dump(e) })
		where := func() string {
			return fmt.Sprintf("config=%s stateless=%v\nsrc=%s\ndump=%s\nbinding=%v", maskName(mask), u.Stateless, src, d, describeU(u))
		}
		// (ii) compile-time invocations: declared-stateless operators only
		for i, ev := range log.Ev {
			if !stateless[ev.Op] {
				return Violf("C10: Compile invoked %s, which is not declared stateless\n%s", ev.String(), where())
			}
			_ = i
		}
		if mask&MaskFold == 0 && len(log.Ev) != 0 {
			return Violf("C10: operators were invoked at compile time although ConstantFolding is off: %v\n%s", m.TraceStrings(log.Ev), where())
		}
		dt, err := m.ReadDump(d)
		if err != nil {
			return Violf("C10: unreadable dump: %v\n%s", err, where())
		}
		restoreRawConstants(dt, u)
		// (v) folding soundness (only ConstantFolding enabled: the structure is otherwise unchanged)
		if mask == MaskFold && rawConsts {
			if why := foldingSound(c.Tree, dt, stateless, engineSays); why != "" {
				return Violf("C10: unsound folding: %s\n%s", why, where())
			}
		}
		if rawConsts {
			r.Class("raw-typed-constant")
			// (no model of what operators make of raw-typed values: the remaining oracles do not apply - except
			// the model-free one: an evaluation visits every node at most once, so no registered operator is
			// called more often than calls of it occur in the program, whatever its arguments and its outcome)
			log.Reset()
			f := NewFetcher(u, cc, log)
			if o := Safe(func() (eval.Value, error) { return e.Eval(f.Ctx()) }); o.Panic != nil {
				return Violf("C10: Eval panics\n%s\n%v", where(), o)
			}
			if why := atMostOncePerNode(dt, log.Ev); why != "" {
				return Violf("C10: %s\n%s\ncalls=%v", why, where(), m.TraceStrings(log.Ev))
			}
			continue
		}
		if mask == MaskFold {
			if why := foldingSound(c.Tree, dt, stateless); why != "" {
				return Violf("C10: unsound folding: %s\n%s", why, where())
			}
		}
		if mask == 0 && !m.EqualTree(c.Tree, dt) {
			return Violf("C10: with every optimization off the program differs from the source\n%s", where())
		}
		// (iii) k evaluations: each performs exactly the calls of R on the dumped tree, state threaded through
		for k := 0; k < c.K; k++ {
			calls := log.Calls()
			log.Reset()
			f := NewFetcher(u, cc, log)
			o := Safe(func() (eval.Value, error) { return e.Eval(f.Ctx()) })
			rk := &m.Env{Vars: u.Bound(), Fail: u.Fail(), Custom: customModel(), Calls: calls, Fast: mask&MaskFast != 0}
			kv, kerr := rk.Eval(dt)
			if o.Panic != nil {
				return Violf("C10: Eval panics (evaluation %d)\n%s\n%v", k+1, where(), o)
			}
			if !MatchTrace(log.Ev, rk.Trace) {
				return Violf("C10: evaluation %d does not perform the operator calls of the dumped program (a result baked in at compile time, or a call at the wrong time)\n%s\nengine   =%v\nreference=%v", k+1, where(), m.TraceStrings(log.Ev), m.TraceStrings(rk.Trace))
			}
			if kerr != m.ErrOptionalFetch && !Agrees(o, kv, kerr) {
				return Violf("C10: evaluation %d differs from the reference on the dumped program\n%s\nengine=%v\nreference=%s", k+1, where(), o, refString(kv, kerr))
			}

			// (vi) nothing but folding and reordering may change which registered operators run: with both
			// off (ReduceNesting / FastEvaluation at most) the first evaluation makes exactly the
			// registered-operator calls that left-to-right evaluation of the SOURCE makes, whenever that succeeds
			if k == 0 && mask&(MaskFold|MaskReorder) == 0 && rerr == nil {
				var got, want []m.Ev
				for _, ev := range log.Ev {
					if ev.Op != "" {
						got = append(got, ev)
					}
				}
				for _, ev := range ref.Trace {
					if ev.Op != "" {
						want = append(want, ev)
					}
				}
				if !MatchTrace(got, want) {
					return Violf("C10: with ConstantFolding and Reordering off the program does not run the registered operators the source runs (a call was dropped, added or merged at compile time)\n%s\nengine=%v\nsource =%v", where(), m.TraceStrings(got), m.TraceStrings(want))
				}
			}
			// (iv) errors surface only if reached: without Reordering a succeeding left-to-right evaluation keeps its value
			if k == 0 && pureOnly && mask&MaskReorder == 0 && rerr == nil && !Agrees(o, rv, nil) {
				return Violf("C10: left-to-right evaluation of the source succeeds with %s but the compiled program returns %v\n%s", refString(rv, nil), o, where())
			}
		}
	}

	// evidence classes
	undeclaredConstCall, failingConst, varUnderDecider := false, false, false
	var scan func(n *m.Node)
	scan = func(n *m.Node) {
		if n.Kind == m.KOp {
			allConst := true
			for _, k := range n.Kids {
				if k.Kind != m.KConst {
					allConst = false
				}
			}
			if !m.IsBuiltin(n.Name) && !stateless[n.Name] && allConst {
				undeclaredConstCall = true
			}
			if len(n.VarNames()) == 0 {
				env := &m.Env{Custom: customModel()}
				if _, err := env.Eval(n); err != nil {
					failingConst = true
				}
			}
			if m.IsAnd(n.Name) || m.IsOr(n.Name) {
				decided, hasVar := false, false
				for _, k := range n.Kids {
					if v, ok := foldable(k, stateless); ok {
						if b, isBool := v.(bool); isBool && b == m.IsOr(n.Name) {
							decided = true
						}
					}
					if len(k.VarNames()) > 0 {
						hasVar = true
					}
				}
				if decided && hasVar {
					varUnderDecider = true
				}
			}
		}
		for _, k := range n.Kids {
			scan(k)
		}
	}
	scan(c.Tree)
	if undeclaredConstCall {
		r.Class("undeclared-operator-on-constants")
	}
	if failingConst {
		r.Class("failing-constant-subexpression")
	}
	if varUnderDecider {
		r.Class("variable-under-deciding-constant")
	}
	if undeclaredConstCall || failingConst || varUnderDecider {
		r.NonTrivial(src+fmt.Sprint(u.Stateless, describeU(u), c.K), func() interface{} {
			return map[string]interface{}{"src": clip(src, 300), "stateless": u.Stateless, "k": c.K}
		})
	}
	return nil
}

var propC10 = Prop[C10Case]{
	ID:    "C10",
	Rule:  "constant-dense typed random trees with custom operators (a drawn subset declared stateless, the rest not; the stateful c_cnt never), failing constant sub-expressions (division by zero, bad version, ill-typed / wrong-count built-in calls, c_fail) under deciding and non-deciding and/or operands and in if branches, x 16 optimization subsets x k = 1..5 repeated evaluations. Oracles: Compile always succeeds; the compile-time call log holds only declared-stateless operators and is empty without ConstantFolding; every evaluation performs exactly the custom-operator calls (arguments, results) of R on the dumped tree with the operators' state threaded through; without Reordering a succeeding left-to-right evaluation keeps its value; with ConstantFolding and Reordering both off the first evaluation makes exactly the registered-operator calls of left-to-right evaluation of the source (when that succeeds); with only ConstantFolding on, every place where the dump has a constant and the source a sub-tree satisfies the folding rule (validity predicate: folding less is fine). Whole-run bracket: 40 canary cases (compile-time calls, dump, two evaluations under four subsets) answer the same before the first and after the last case of the shard. Non-trivial = an undeclared custom operator applied to constants only, or a failing constant sub-expression, or a variable under an and/or that a constant operand decides; distinct by source + stateless list + binding",
	Gen:   genC10,
	Check: checkC10,
}

// c10Ask: compile-time calls, program and two evaluations under four subsets, for the whole-run bracket.
func c10Ask(c C10Case) string {
	u := &c.U
	if u.RegMode == RegVarAndOp {
		u.RegMode = RegGetOrReg // (RegVarAndOp assigns keys in Go map order: not a function of the case)
	}
	src := m.Render(c.Tree)
	out := ""
	for _, mask := range []int{0, MaskFold, 15, MaskFold | MaskNest} {
		log := &Log{}
		cc, _ := NewConfig(u, log, Build{Mask: mask, How: HowMapAll, Costs: c.Costs})
		e, co := SafeCompile(cc, src)
		if co.Panic != nil || co.Err != nil {
			out += fmt.Sprintf("%s: compile %v\n", maskName(mask), co)
			continue
		}
		out += fmt.Sprintf("%s: compile-time calls %v\n%s\n", maskName(mask), m.TraceStrings(log.Ev), eval.Dump(e))
		for k := 0; k < 2; k++ {
			log.Reset()
			f := NewFetcher(u, cc, log)
			o := Safe(func() (eval.Value, error) { return e.Eval(f.Ctx()) })
			out += fmt.Sprintf("  eval %d: %v calls %v\n", k+1, o, m.TraceStrings(log.Ev))
		}
	}
	return out
}

func init() {
	propC10.Before, propC10.After = canaryBracket("C10", 40, genC10, c10Ask)
}

func TestC10(t *testing.T)       { Run(t, propC10) }
func TestC10Replay(t *testing.T) { Replay(t, propC10) }
