//go:build verif

package props

import (
	"context"
	"fmt"
	"reflect"
	"runtime"
	"sort"
	"sync"
	"sync/atomic"
	"testing"
	"time"

	"github.com/onheap/eval"
	"pgregory.net/rapid"

	m "verifharness/model"
)

// C07 – compiled expressions are immutable, re-entrant and goroutine-safe.

type C07Prog struct {
	U      Universe `json:"u"`
	Tree   *m.Node  `json:"tree"`
	Mask   int      `json:"mask"`
	Events int      `json:"events,omitempty"`
	Src    string   `json:"src"`
}

type C07Call struct {
	P  int `json:"p"`  // program
	Op int `json:"op"` // 0 Eval 1 TryEval 2 Dump 3 DumpTable 4 EvalBool
	B  int `json:"b"`  // binding 0..5
	// Ctx: how the call's own context is built: 0 the harness's instrumented fetcher, 1 the library's
	// NewCtxFromVars over the binding's values, 2 NewCtxFromVars(conf, nil) filled with Ctx.Set
	// afterwards (the start-empty-and-Set pattern of TryEval users), 3 NewCtxFromVars over a bindings
	// map that the caller built once per binding and hands to every call with that binding, from
	// every goroutine (its integers and integer lists are Go int / []int); a failing fetch is an absent value.
	Ctx int `json:"ctx,omitempty"`
	// Y: the instrumented fetcher yields the processor on every Y-th Get / Cached (0: never), so that
	// other goroutines run between two fetches of one evaluation
	Y int `json:"y,omitempty"`
	// Done: the call's Ctx carries a context.Context that is already cancelled (1) or past its deadline (2).
	// Whatever the engine makes of it, it makes the same of it in isolation.
	Done int `json:"done,omitempty"`
}

type C07Case struct {
	Progs    []C07Prog   `json:"progs"`
	Seq      []C07Call   `json:"seq"`
	Par      [][]C07Call `json:"par"`
	Consumer int         `json:"consumer"` // event consumer: 0 prompt, 1 buffered, 2 slow
	// Procs: GOMAXPROCS during the concurrent part (0: the machine's). With one processor goroutines
	// switch only where something yields or blocks - at the fetcher's yield points and at event
	// sends - so whole evaluations of other goroutines run in the middle of this one.
	Procs int `json:"procs,omitempty"`
}

const c07Bindings = 6

func genC07Calls(t *rapid.T, nprogs, lo, hi int) []C07Call {
	n := rapid.IntRange(lo, hi).Draw(t, "ncalls")
	out := make([]C07Call, n)
	for i := range out {
		out[i] = C07Call{
			P:    rapid.IntRange(0, nprogs-1).Draw(t, "prog"),
			Op:   pickW(t, "op", 6, 4, 1, 1, 2),
			B:    rapid.IntRange(0, c07Bindings-1).Draw(t, "bind"),
			Ctx:  pickW(t, "ctx", 4, 1, 2, 2),
			Y:    pickW(t, "yield", 3, 2, 1, 1),
			Done: pickW(t, "donectx", 8, 1, 1),
		}
	}
	return out
}

func genC07(t *rapid.T) C07Case {
	var c C07Case
	np := rapid.IntRange(1, 3).Draw(t, "nprogs")
	for i := 0; i < np; i++ {
		g := &G{t: t, GenCfg: GenCfg{
			Depth:    rapid.IntRange(2, 5).Draw(t, "depth"),
			MaxArity: rapid.IntRange(2, 5).Draw(t, "maxarity"),
			Failing:  rapid.IntRange(0, 2).Draw(t, "failing") == 0,
			BadVars:  rapid.IntRange(0, 2).Draw(t, "badvars") == 0,
			Custom:   true, Consts: true, Aliases: true, VarW: 8,
		}}
		var tree *m.Node
		var u *Universe
		switch pickW(t, "progkind", 4, 2, 2) {
		case 1: // deep operand stack (more than 16 slots), the deepest operand re-enters the program
			need := rapid.IntRange(15, 30).Draw(t, "need")
			tree = stackShape(rapid.IntRange(0, 5).Draw(t, "shape"), need)
			wrapLastVar(tree, "c_re")
			u = c09Universe(rapid.Bool().Draw(t, "reach"))
		case 2: // large, unsorted list literals next to list variables
			tree, u = bigListProgram(t)
		default:
			tree = wrapRoot(g.Program(rootTy(t)))
			fixEmptyLists(tree)
			if rapid.IntRange(0, 2).Draw(t, "reenter") == 0 {
				wrapLastVar(tree, "c_re")
			}
			u = UniverseFor(t, tree, false)
		}
		c.Progs = append(c.Progs, C07Prog{U: *u, Tree: tree, Mask: rapid.IntRange(0, 15).Draw(t, "mask"), Events: pickW(t, "events", 6, 2, 2, 1), Src: m.Render(tree)})
	}
	c.Seq = genC07Calls(t, np, 10, 60)
	if rapid.IntRange(0, 3).Draw(t, "coldstart") == 0 {
		c.Seq = nil // no sequential warm-up: the very first calls on the shared programs are the concurrent ones
	}
	ng := rapid.IntRange(2, depthMax(8, 16)).Draw(t, "goroutines")
	lo, hi := 10, depthMax(50, 200)
	c.Consumer = rapid.IntRange(0, 2).Draw(t, "consumer")
	c.Procs = []int{0, 1, 2, 4}[pickW(t, "procs", 3, 2, 1, 1)]
	if rapid.IntRange(0, 9).Draw(t, "crowd") == 0 {
		// a crowd: hundreds of evaluations in flight at once - every program reports events to an
		// unbuffered channel with a slow reader, so the goroutines pile up inside Eval / TryEval
		ng = rapid.IntRange(130, 320).Draw(t, "crowdsize")
		lo, hi = 1, 3
		c.Consumer = 2
		for i := range c.Progs {
			c.Progs[i].Events = 1 + i%2
		}
	}
	for gi := 0; gi < ng; gi++ {
		c.Par = append(c.Par, genC07Calls(t, np, lo, hi))
	}
	return c
}

// wrapLastVar wraps the last variable leaf of the tree (in evaluation order) in a call of op.
func wrapLastVar(tree *m.Node, op string) {
	var last, parent *m.Node
	idx := -1
	var rec func(n *m.Node)
	rec = func(n *m.Node) {
		for i, k := range n.Kids {
			if k.Kind == m.KVar {
				last, parent, idx = k, n, i
			}
			rec(k)
		}
	}
	rec(tree)
	if last != nil {
		parent.Kids[idx] = m.Op(op, last)
	}
}

func c09Universe(reach bool) *Universe {
	return C09Case{Reach: reach, Op: "and"}.universe()
}

type reenterKey struct{}

// c07Binding: binding k of a program: values, failing fetches, availability.
func c07Binding(u *Universe, k int) (vars map[string]interface{}, fail map[string]error, avail map[string]bool) {
	vars = rebind(u, k)
	fail = u.Fail()
	avail = map[string]bool{}
	bound := 0
	for i, v := range u.Vars {
		if v.Mode == 0 {
			if k >= 3 && bound == k%3 { // bindings 3..5 make one more fetch fail
				fail[v.Name] = m.ErrFetch
			}
			bound++
		}
		if v.Mode != 2 && (i+k)%3 != 0 {
			avail[v.Name] = true
		}
	}
	return
}

type c07Result struct {
	o    Outcome
	text string
}

// errTexts remembers every error a call returned together with its text at that moment: an
// error is part of what the call returned and says the same thing when it is read later.
type errTexts struct {
	mu   sync.Mutex
	errs []error
	txts []string
}

func (e *errTexts) note(err error) {
	if err == nil {
		return
	}
	txt := err.Error()
	e.mu.Lock()
	if len(e.errs) < 4096 {
		e.errs, e.txts = append(e.errs, err), append(e.txts, txt)
	}
	e.mu.Unlock()
}

func (e *errTexts) changed() (string, string, bool) {
	e.mu.Lock()
	defer e.mu.Unlock()
	for i, err := range e.errs {
		if now := err.Error(); now != e.txts[i] {
			return e.txts[i], now, true
		}
	}
	return "", "", false
}

func (a c07Result) same(b c07Result) bool {
	if a.text != b.text {
		return false
	}
	if a.o.Panic != nil || b.o.Panic != nil {
		return false
	}
	return SameOutcome(a.o, b.o)
}

// c07LibCtx builds the call's context with the library's own fetchers.
// c07Vals: the values a library context is built from; raw: integers and integer lists as Go int / []int.
func c07Vals(vars map[string]interface{}, fail map[string]error, avail map[string]bool, raw bool) map[string]interface{} {
	vals := map[string]interface{}{}
	for n, v := range vars {
		if _, failing := fail[n]; failing || (avail != nil && !avail[n]) {
			continue
		}
		if raw {
			switch x := v.(type) {
			case int64:
				v = int(x)
			case []int64:
				l := make([]int, len(x))
				for i, e := range x {
					l[i] = int(e)
				}
				v = l
			}
		}
		vals[n] = v
	}
	return vals
}

func c07LibCtx(cc *eval.Config, mode int, vars map[string]interface{}, fail map[string]error, avail map[string]bool, shared map[string]interface{}) *eval.Ctx {
	if mode == 3 {
		if shared == nil {
			shared = c07Vals(vars, fail, avail, true)
		}
		return eval.NewCtxFromVars(cc, shared)
	}
	vals := c07Vals(vars, fail, avail, false)
	if mode == 1 {
		return eval.NewCtxFromVars(cc, vals)
	}
	ctx := eval.NewCtxFromVars(cc, nil)
	names := make([]string, 0, len(vals))
	for n := range vals {
		names = append(names, n)
	}
	sort.Strings(names)
	for _, n := range names {
		key, ok := cc.VariableKeyMap[n]
		if !ok {
			key = eval.UndefinedVarKey
		}
		_ = ctx.Set(key, n, vals[n])
	}
	return ctx
}

// c07SharedKey: one kept bindings map per binding and availability view.
func c07SharedKey(call C07Call) int {
	k := call.B * 2
	if call.Op == 1 {
		k++
	}
	return k
}

func c07Do(e *eval.Expr, cc *eval.Config, u *Universe, call C07Call, sharedMaps ...map[int]map[string]interface{}) c07Result {
	vars, fail, avail := c07Binding(u, call.B)
	var shared map[string]interface{}
	if len(sharedMaps) > 0 && sharedMaps[0] != nil {
		shared = sharedMaps[0][c07SharedKey(call)]
	}
	f := &Fetcher{Vars: vars, Fail: fail, Log: &Log{}, Yield: call.Y}
	if call.Ctx != 0 && (call.Op == 0 || call.Op == 1 || call.Op == 4) {
		var ctx *eval.Ctx
		if o := Safe(func() (eval.Value, error) {
			if call.Op == 1 {
				ctx = c07LibCtx(cc, call.Ctx, vars, fail, avail, shared)
			} else {
				ctx = c07LibCtx(cc, call.Ctx, vars, fail, nil, shared)
			}
			return nil, nil
		}); o.Panic != nil {
			return c07Result{o: o}
		}
		if ctx != nil {
			ctx.Ctx = doneContext(call.Done)
		}
		switch call.Op {
		case 0:
			return c07Result{o: Safe(func() (eval.Value, error) { return e.Eval(ctx) })}
		case 1:
			return c07Result{o: Safe(func() (eval.Value, error) { return e.TryEval(ctx) })}
		default:
			return c07Result{o: Safe(func() (eval.Value, error) { return e.EvalBool(ctx) })}
		}
	}
	fctx := func() *eval.Ctx {
		ctx := f.Ctx()
		ctx.Ctx = doneContext(call.Done)
		return ctx
	}
	switch call.Op {
	case 0:
		return c07Result{o: Safe(func() (eval.Value, error) { return e.Eval(fctx()) })}
	case 1:
		f.Avail = avail
		return c07Result{o: Safe(func() (eval.Value, error) { return e.TryEval(fctx()) })}
	case 2:
		s, o := SafeStr(func() string { return eval.Dump(e) })
		return c07Result{o: o, text: s}
	case 3:
		s, o := SafeStr(func() string { return eval.DumpTable(e, call.B%2 == 0) })
		return c07Result{o: o, text: s}
	default:
		return c07Result{o: Safe(func() (eval.Value, error) { return e.EvalBool(fctx()) })}
	}
}

var (
	cancelledCtx, pastDeadlineCtx context.Context
	doneOnce                      sync.Once
)

// doneContext: nil, an already cancelled context, or one whose deadline has passed.
func doneContext(kind int) context.Context {
	doneOnce.Do(func() {
		c, cancel := context.WithCancel(context.Background())
		cancel()
		cancelledCtx = c
		d, cancel2 := context.WithDeadline(context.Background(), time.Unix(1, 0))
		_ = cancel2
		pastDeadlineCtx = d
	})
	switch kind {
	case 1:
		return cancelledCtx
	case 2:
		return pastDeadlineCtx
	}
	return nil
}

type progSnapshot struct {
	nodes   []eval.VerifNode
	parents []int16
	max     int16
}

func snapshotProgram(e *eval.Expr) progSnapshot {
	n, p, mx := eval.VerifProgram(e)
	return progSnapshot{n, p, mx}
}

func (a progSnapshot) diff(b progSnapshot) string {
	if a.max != b.max || len(a.nodes) != len(b.nodes) || len(a.parents) != len(b.parents) {
		return fmt.Sprintf("size/stack bound changed: %d/%d nodes, stack %d/%d", len(a.nodes), len(b.nodes), a.max, b.max)
	}
	for i := range a.nodes {
		x, y := a.nodes[i], b.nodes[i]
		if x.Flag != y.Flag || x.ChildCnt != y.ChildCnt || x.ScIdx != y.ScIdx || x.OsTop != y.OsTop || x.VarKey != y.VarKey || x.OpPtr != y.OpPtr ||
			fmt.Sprintf("%T|%v", x.Value, x.Value) != fmt.Sprintf("%T|%v", y.Value, y.Value) {
			return fmt.Sprintf("node %d changed: %+v -> %+v", i, x, y)
		}
		if a.parents[i] != b.parents[i] {
			return fmt.Sprintf("parent of node %d changed: %d -> %d", i, a.parents[i], b.parents[i])
		}
	}
	return ""
}

// startConsumer attaches the event consumer of the drawn kind; stop() detaches it.
func startConsumer(e *eval.Expr, kind int) (stop func()) {
	var ch chan eval.Event
	if kind == 1 {
		ch = make(chan eval.Event, 256)
	} else {
		ch = make(chan eval.Event)
	}
	e.EventChan = ch
	var wg sync.WaitGroup
	wg.Add(1)
	go func() {
		defer wg.Done()
		n := 0
		for ev := range ch {
			n++
			// (a consumer looks at what it received: every slot of the stack snapshot and of the arguments)
			for _, v := range ev.Stack {
				if v == scribble {
					n++
				}
			}
			if d, ok := ev.Data.(eval.OpEventData); ok {
				for _, v := range d.Params {
					if v == scribble {
						n++
					}
				}
			}
			if kind == 2 && n%64 == 0 {
				time.Sleep(50 * time.Microsecond)
			}
		}
	}()
	return func() { close(ch); wg.Wait() }
}

func callName(c C07Call) string {
	return fmt.Sprintf("%s(program %d, binding %d, context %s)", []string{"Eval", "TryEval", "Dump", "DumpTable", "EvalBool"}[c.Op], c.P, c.B, []string{"instrumented fetcher", "NewCtxFromVars(values)", "NewCtxFromVars(nil)+Set", "NewCtxFromVars(kept raw bindings map)"}[c.Ctx])
}

func checkC07(c C07Case, r *Rec) *Violation {
	type prog struct {
		e    *eval.Expr
		cc   *eval.Config
		kept map[int]map[string]interface{} // the caller's bindings maps (context mode 3), built once
		u    *Universe
		want map[C07Call]c07Result
		snap progSnapshot
		stop func()
	}
	progs := make([]*prog, len(c.Progs))
	compile := func(p *C07Prog) (*eval.Expr, *eval.Config, *Violation) {
		cc, _ := NewConfig(&p.U, &Log{}, Build{Mask: p.Mask, Events: p.Events, Pure: true})
		// c_re(x) = x, but the first time it runs in an evaluation it evaluates the very
		// program it belongs to once more, on the same goroutine, with the same fetcher
		var self *eval.Expr
		cc.OperatorMap["c_re"] = func(ctx *eval.Ctx, params []eval.Value) (eval.Value, error) {
			if len(params) != 1 {
				return nil, m.ErrCustom
			}
			if ctx != nil && self != nil && (ctx.Ctx == nil || ctx.Ctx.Value(reenterKey{}) == nil) {
				inner := &eval.Ctx{VariableFetcher: ctx.VariableFetcher, Ctx: context.WithValue(context.Background(), reenterKey{}, true)}
				_, _ = self.Eval(inner)
				_, _ = self.TryEval(inner)
			}
			return params[0], nil
		}
		e, co := SafeCompile(cc, m.Render(p.Tree))
		if co.Panic != nil || co.Err != nil {
			return nil, nil, Violf("C07: compile failed: %v\nsrc=%s", co, m.Render(p.Tree))
		}
		self = e
		return e, cc, nil
	}
	for i := range c.Progs {
		p := &c.Progs[i]
		// isolated reference results: a fresh, unshared compilation per call
		pr := &prog{u: &p.U, want: map[C07Call]c07Result{}}
		all := append([]C07Call{}, c.Seq...)
		for _, g := range c.Par {
			all = append(all, g...)
		}
		for _, call := range all {
			if call.P != i {
				continue
			}
			if _, done := pr.want[call]; done {
				continue
			}
			fresh, freshCC, v := compile(p)
			if v != nil {
				return v
			}
			var stop func()
			if p.Events > 0 {
				stop = startConsumer(fresh, 0)
			}
			pr.want[call] = c07Do(fresh, freshCC, &p.U, call)
			if stop != nil {
				stop()
			}
			if pr.want[call].o.Panic != nil {
				return Violf("C07: %s panics in isolation: %v\nsrc=%s", callName(call), pr.want[call].o, m.Render(p.Tree))
			}
			// cross-check the isolated Eval against the reference semantics
			if call.Op == 0 && call.Ctx == 0 && call.Done == 0 { // (what a done context.Context means to Eval is judged against isolation only)
				vars, fail, _ := c07Binding(&p.U, call.B)
				if dt, err := m.ReadDump(eval.Dump(fresh)); err == nil {
					ref := &m.Env{Vars: vars, Fail: fail, Custom: customModel(), Fast: p.Mask&MaskFast != 0}
					rv, rerr := ref.Eval(dt)
					if rerr != m.ErrOptionalFetch && !Agrees(pr.want[call].o, rv, rerr) {
						return Violf("C07: Eval on an unshared program disagrees with the reference (re-entrancy included)\nsrc=%s\nconfig=%s binding=%d\nengine=%v reference=%s", m.Render(p.Tree), maskName(p.Mask), call.B, pr.want[call].o, refString(rv, rerr))
					}
				}
			}
		}
		e, cc, v := compile(p)
		if v != nil {
			return v
		}
		pr.e, pr.cc = e, cc
		pr.kept = map[int]map[string]interface{}{}
		for b := 0; b < c07Bindings; b++ {
			vars, fail, avail := c07Binding(&p.U, b)
			pr.kept[b*2] = c07Vals(vars, fail, nil, true)
			pr.kept[b*2+1] = c07Vals(vars, fail, avail, true)
		}
		pr.snap = snapshotProgram(e)
		if p.Events > 0 {
			pr.stop = startConsumer(e, c.Consumer)
		}
		progs[i] = pr
	}
	defer func() {
		for _, p := range progs {
			if p != nil && p.stop != nil {
				p.stop()
			}
		}
	}()
	describe := func() string {
		s := ""
		for i, p := range c.Progs {
			s += fmt.Sprintf("program %d: config=%s events=%d src=%s\n", i, maskName(p.Mask), p.Events, clip(m.Render(p.Tree), 300))
		}
		return s
	}
	checkImmutable := func(when string) *Violation {
		for i, p := range progs {
			if d := p.snap.diff(snapshotProgram(p.e)); d != "" {
				return Violf("C07: the compiled program %d was modified %s: %s\n%s", i, when, d, describe())
			}
		}
		return nil
	}

	// sequential history on the shared programs
	failures := 0
	kept := &errTexts{}
	for k, call := range c.Seq {
		p := progs[call.P]
		got := c07Do(p.e, p.cc, p.u, call, p.kept)
		kept.note(got.o.Err)
		if got.o.Err != nil {
			failures++
		}
		if !got.same(p.want[call]) {
			return Violf("C07: call %d of the sequential history, %s, returns %v %q; in isolation it returns %v %q\n%s", k, callName(call), got.o, clip(got.text, 200), p.want[call].o, clip(p.want[call].text, 200), describe())
		}
	}
	if v := checkImmutable("by the sequential history"); v != nil {
		return v
	}

	// concurrent histories behind one barrier
	var (
		start       = make(chan struct{})
		wg          sync.WaitGroup
		firstCalls  int32
		atFirstDone int32 = -1
		mu          sync.Mutex
		bad         *Violation
	)
	for gi, calls := range c.Par {
		wg.Add(1)
		go func(gi int, calls []C07Call) {
			defer wg.Done()
			<-start
			for k, call := range calls {
				p := progs[call.P]
				got := c07Do(p.e, p.cc, p.u, call, p.kept)
				kept.note(got.o.Err)
				if k == 0 {
					atomic.AddInt32(&firstCalls, 1)
				}
				if !got.same(p.want[call]) {
					mu.Lock()
					if bad == nil {
						bad = Violf("C07: goroutine %d, call %d, %s, returns %v %q while other goroutines use the program; in isolation it returns %v %q\n%s", gi, k, callName(call), got.o, clip(got.text, 200), p.want[call].o, clip(p.want[call].text, 200), describe())
					}
					mu.Unlock()
					return
				}
			}
			atomic.CompareAndSwapInt32(&atFirstDone, -1, atomic.LoadInt32(&firstCalls))
		}(gi, calls)
	}
	if c.Procs > 0 {
		defer runtime.GOMAXPROCS(runtime.GOMAXPROCS(c.Procs))
	}
	close(start)
	wg.Wait()
	if bad != nil {
		return bad
	}
	if v := checkImmutable("by the concurrent calls"); v != nil {
		return v
	}
	if was, now, changed := kept.changed(); changed {
		return Violf("C07: an error returned by an earlier call reads differently after later calls: it said %q when it was returned, now %q\n%s", was, now, describe())
	}
	if len(c.Seq) == 0 {
		r.Class("cold-start:first-calls-are-concurrent")
	}
	// the caller's kept bindings maps are what they were
	for i, p := range progs {
		for b := 0; b < c07Bindings; b++ {
			vars, fail, avail := c07Binding(p.u, b)
			for k, want := range map[int]map[string]interface{}{b * 2: c07Vals(vars, fail, nil, true), b*2 + 1: c07Vals(vars, fail, avail, true)} {
				if !reflect.DeepEqual(p.kept[k], want) {
					return Violf("C07: a bindings map the caller kept and built contexts from (program %d, binding %d) was modified: now %v, was %v\n%s", i, b, p.kept[k], want, describe())
				}
			}
		}
	}
	overlapped := atFirstDone >= 2
	if overlapped {
		r.Class("goroutines-overlapped")
	}
	r.Class(fmt.Sprintf("gomaxprocs:%d", c.Procs))
	if len(c.Par) > 100 {
		r.Class("goroutines:crowd(130..320)")
	} else {
		r.Class(fmt.Sprintf("goroutines:%02d", len(c.Par)))
	}
	libCtx := false
	for _, call := range c.Seq {
		if call.Ctx != 0 {
			libCtx = true
		}
	}
	if libCtx {
		r.Class("library-fetcher-contexts-in-history")
	}
	anyEvents := false
	for _, p := range c.Progs {
		if p.Events > 0 {
			anyEvents = true
		}
	}
	if anyEvents {
		r.Class("event-mode-program-shared")
	}
	if overlapped && failures > 0 && failures < len(c.Seq) {
		r.NonTrivial(fmt.Sprintf("%v", c), func() interface{} {
			return map[string]interface{}{"programs": describe(), "sequential_calls": len(c.Seq), "goroutines": len(c.Par), "calls_per_goroutine": len(c.Par[0]), "overlap_at_first_finish": atFirstDone}
		})
	}
	return nil
}

var propC07 = Prop[C07Case]{
	ID:       "C07",
	Rule:     "histories over 1..3 shared compiled programs (typed random tree x optimization subset x {no events, ReportEvent, Debug}), 6 bindings each (three of them with an additional failing fetch, so successes and failures mix): a sequential part of 10..60 calls (Eval, TryEval, Dump, DumpTable, EvalBool) and a concurrent part of 2..8 (16 thorough) goroutines x 10..50 (200) calls started behind one barrier, GOMAXPROCS 1 / 2 / 4 / the machine's (drawn), each call with its own context - one in five carrying an already cancelled or expired context.Context - (the harness's instrumented fetcher - which yields the processor on every 1st / 2nd / 3rd fetch or never (drawn per call), so that with few processors whole evaluations of other goroutines run between two fetches of one evaluation -, the library's NewCtxFromVars over the values, an empty NewCtxFromVars context filled with Ctx.Set, or NewCtxFromVars over one raw-typed bindings map per binding that the caller keeps and shares between all goroutines); event consumer prompt / buffered / slow. One history in four has no sequential part (the first calls a program ever sees are the concurrent ones). Oracles: every call returns what the same call returns on a freshly compiled unshared program; an error once returned keeps its text (itself cross-checked against R when unoptimized); the flat program read through the read-only hook (flags, child counts, jump indexes, stack slots, keys, values, operator identities, parent table, stack bound) is identical before and after; the test binary runs under the Go race detector (halt on first report; the case is written to disk before it runs). Non-trivial = at least two goroutines had completed a call when the first goroutine finished (measured) and the sequential history mixes failing and succeeding calls; distinct by the whole history",
	Gen:      genC07,
	Check:    checkC07,
	PreWrite: true,
}

func TestC07(t *testing.T)       { Run(t, propC07) }
func TestC07Replay(t *testing.T) { Replay(t, propC07) }
