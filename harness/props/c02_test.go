package props

import (
	"fmt"
	"math"
	"sort"
	"testing"

	"github.com/onheap/eval"
	"pgregory.net/rapid"

	m "verifharness/model"
)

// C02 – every optimisation combination preserves the meaning of the expression.

type C02Case struct {
	U     Universe    `json:"u"`
	Tree  *m.Node     `json:"tree"`
	Costs []CostEntry `json:"costs,omitempty"`
	Src   string      `json:"src"`
	// RawVars: the fetcher hands some integers over as Go int (a fetcher is free to do so; only
	// eq/ne accept such a value). RawConst: a constant registered with a raw Go integer type is
	// compared with the literal of the same number (ConstantMap values are not normalised, so the
	// comparison is false - in every configuration).
	RawVars  bool `json:"raw_vars,omitempty"`
	RawConst bool `json:"raw_const,omitempty"`
}

const rawSentinel = 777001

var rawSentinels = []interface{}{int(rawSentinel), int32(rawSentinel), uint32(rawSentinel), uint64(rawSentinel), int(rawSentinel)}

var wildCosts = []float64{1, 0, -1, 5, 7, 10, 50, 1000, -100, math.NaN(), math.Inf(1), math.Inf(-1), 1e308, -1e308}
var finiteCosts = wildCosts[:9]

// costNames: the names a cost map can usefully mention for this tree.
func costNames(tree *m.Node) []string {
	set := map[string]bool{"variable": true, "operator": true}
	tree.Walk(func(x *m.Node) {
		if x.Kind == m.KVar || x.Kind == m.KOp {
			set[x.Name] = true
		}
	})
	out := make([]string, 0, len(set))
	for k := range set {
		out = append(out, k)
	}
	sort.Strings(out)
	return out
}

func genCosts(t *rapid.T, tree *m.Node, pool []float64) []CostEntry {
	var out []CostEntry
	if rapid.IntRange(0, 3).Draw(t, "nocosts") == 0 {
		return nil
	}
	for _, n := range costNames(tree) {
		if rapid.IntRange(0, 2).Draw(t, "has_"+n) == 0 {
			out = append(out, CostEntry{Name: n, C: fstr(rapid.SampledFrom(pool).Draw(t, "cost_"+n))})
		}
	}
	return out
}

func genC02(t *rapid.T) C02Case {
	wide := rapid.IntRange(0, 9).Draw(t, "wide") == 0
	maxA := rapid.IntRange(2, arityMax(6, 10)).Draw(t, "maxarity")
	if wide {
		maxA = rapid.IntRange(8, depthMax(20, 40)).Draw(t, "widearity")
	}
	d := rapid.IntRange(1, depthMax(6, 8)).Draw(t, "depth")
	if wide && d > 3 {
		d = 3
	}
	rawKind := rapid.IntRange(0, 7).Draw(t, "rawkind")
	g := &G{t: t, GenCfg: GenCfg{Depth: d, MaxArity: maxA,
		Failing: rapid.Bool().Draw(t, "failing") && rawKind != 0, // (raw bindings: the only errors are the ones the raw values cause)
		Custom:  true, Consts: true, Aliases: true, BoolW: 6,
	}}
	ty := rootTy(t)
	tree := wrapRoot(g.Program(ty))
	fixEmptyLists(tree)
	u := UniverseFor(t, tree, rapid.IntRange(0, 4).Draw(t, "collide") == 0)
	u.Stateless = drawStateless(t)
	operatorLikeNames(t, tree, u)
	c := C02Case{U: *u}
	switch rawKind {
	case 0:
		c.RawVars = true
	case 1:
		c.RawConst = true
		raw := rapid.SampledFrom(rawSentinels).Draw(t, "rawconst")
		c.U.Consts = append(c.U.Consts, ConstDecl{Name: "KRAW", Val: m.V{X: raw}})
		k := &m.Node{Kind: m.KConst, Name: "KRAW", Val: raw}
		cmp := m.Op(rapid.SampledFrom([]string{"eq", "=", "==", "ne", "!="}).Draw(t, "rawcmp"), k, m.Const(int64(rawSentinel)))
		if rapid.Bool().Draw(t, "rawswap") {
			cmp.Kids[0], cmp.Kids[1] = cmp.Kids[1], cmp.Kids[0]
		}
		if ty == m.TBool {
			tree = m.Op(rapid.SampledFrom([]string{"and", "or", "eq", "ne"}).Draw(t, "rawjoin"), cmp, tree)
		} else {
			other := map[m.Ty]*m.Node{m.TInt: m.Const(int64(424242)), m.TStr: m.Const("rawelse"), m.TIntList: m.Const([]int64{4, 2}), m.TStrList: m.Const([]string{"r"})}[ty]
			tree = m.If(cmp, tree, other)
		}
	}
	c.Tree, c.Costs, c.Src = tree, genCosts(t, tree, wildCosts), m.Render(tree)
	return c
}

func checkC02(c C02Case, r *Rec) *Violation {
	u := &c.U
	src := m.Render(c.Tree)

	ref := &m.Env{Vars: u.Bound(), Fail: u.Fail(), Custom: customModel()}
	rv, rerr := ref.Eval(c.Tree)
	eag := &m.Env{Vars: u.Bound(), Fail: u.Fail(), Custom: customModel()}
	ev, eagerOK := eag.EvalEager(c.Tree)

	var runs [16]*CfgRun
	differ := 0
	for mask := 0; mask < 16; mask++ {
		run, v := runCfg("C02", u, src, Build{Mask: mask, How: HowMapAll, Costs: c.Costs})
		if v != nil {
			return v
		}
		runs[mask] = run
		// (e) outcome equals the reference run on the configuration's own dump
		// (a raw-typed constant prints like the int64 literal of the same number: the dump cannot be read back faithfully)
		if !c.RawConst {
			if _, v := run.checkAgainstOwnDump("C02", src, u); v != nil {
				return v
			}
		}
		// (d) the other ways of expressing the same subset give the same program
		// (one of the six alternative spellings per mask, rotating with the case, so
		// that every spelling meets every mask many times per run)
		alt := int((hash64(src) + uint64(mask)) % (2 + directiveVariants + 6))
		how, variant := HowMapSparse, 0
		switch {
		case alt == 1:
			how = HowOptionFn
		case alt >= 2 && alt < 2+directiveVariants:
			how, variant = HowDirective, alt-2
		case alt >= 2+directiveVariants && alt < 4+directiveVariants:
			how, variant = HowDirectiveOpp, int(hash64(src)%uint64(directiveVariants))
		case alt == 4+directiveVariants:
			how = HowCopySet
		case alt == 5+directiveVariants:
			how = HowExtendSet
		case alt == 6+directiveVariants:
			how = HowExtendKeep
		case alt == 7+directiveVariants:
			how = HowCopyKeep
		}
		{
			log := &Log{}
			cc, prefix := NewConfig(u, log, Build{Mask: mask, How: how, Variant: variant, Costs: c.Costs})
			e2, co := SafeCompile(cc, prefix+src)
			if co.Panic != nil || co.Err != nil {
				return Violf("C02: compile fails when the subset %s is expressed in way %d/%d\nsrc=%s\n%v", maskName(mask), how, variant, prefix+src, co)
			}
			d2, _ := SafeStr(func() string { return evalDump(e2) })
			t2, _ := SafeStr(func() string { return evalDumpTable(e2) })
			if d2 != run.Dump || t2 != run.Table {
				return Violf("C02: option subset %s expressed in way %d (variant %d) builds a different program\nsrc=%s\nvia CompileOptions map:\n%s\n%s\nvia way %d:\n%s\n%s", maskName(mask), how, variant, prefix+src, run.Dump, run.Table, how, d2, t2)
			}
			r.Class(fmt.Sprintf("spelling-%d-%d", how, variant))
		}
		// one configuration per case is compiled once more after unrelated work with a very
		// different config: same input, same program
		if mask == int(hash64(src)%16) {
			foreignActivity(int(hash64(src) % 1000))
			again, v := runCfg("C02", u, src, Build{Mask: mask, How: HowMapAll, Costs: c.Costs})
			if v != nil {
				return v
			}
			if again.Dump != run.Dump || again.Table != run.Table || !SameOutcome(again.Out, run.Out) {
				return Violf("C02: compiling the same source with an equal config again, after unrelated compilations with a different config, gives another program\n%s\nfirst:\n%s\n%v\nagain:\n%s\n%v", run.describe(src, u), run.Table, run.Out, again.Table, again.Out)
			}
			r.Class("recompiled-after-foreign-activity")
		}
		if run.Dump != runs[0].Dump {
			differ++
		}
	}

	for mask := 0; mask < 16; mask++ {
		o := runs[mask].Out
		// (a raw-typed constant: what an operator makes of it is not the reference's business - only
		// that every configuration makes the same of it, rule (a))
		if c.RawConst {
			eagerOK, rerr = false, m.ErrCustom
		}
		// (b) everything any order could reach succeeds: every configuration returns that value
		if eagerOK && !(o.Err == nil && m.EqualVal(o.Val, ev)) {
			return Violf("C02: every reachable operand succeeds, yet configuration %s does not return the value\n%s\nengine=%v\nexpected=%s", maskName(mask), runs[mask].describe(src, u), o, refString(ev, nil))
		}
		// (c) without Reordering the left-to-right result is preserved
		if mask&MaskReorder == 0 && rerr == nil && !(o.Err == nil && m.EqualVal(o.Val, rv)) {
			return Violf("C02: Reordering is off and left-to-right evaluation succeeds, yet configuration %s differs\n%s\nengine=%v\nunoptimized reference=%s", maskName(mask), runs[mask].describe(src, u), o, refString(rv, nil))
		}
		// (a) any two configurations that return values return the same value
		for m2 := 0; m2 < mask; m2++ {
			o2 := runs[m2].Out
			if o.Err == nil && o2.Err == nil && !m.EqualVal(o.Val, o2.Val) {
				return Violf("C02: configurations %s and %s both return a value but not the same\nsrc=%s\nbinding=%v\n%s -> %v\n%s\n%s -> %v\n%s", maskName(mask), maskName(m2), src, describeU(u), maskName(mask), o, runs[mask].Dump, maskName(m2), o2, runs[m2].Dump)
			}
		}
	}

	// (g) every path: for a program with up to five bound boolean variables ALL their assignments are
	// run (the other variables keep their values) - a stale stack slot or a wrong jump target shows on
	// one particular path through the and/or/if structure, which one binding per case rarely takes. Every
	// configuration must do what its own dump does (result and effects, operator state threaded through),
	// and rules (b), (c) and (a) hold for every assignment.
	if bools := boundBools(u); len(bools) >= 1 && len(bools) <= 5 && !c.RawConst {
		for asg := 0; asg < 1<<len(bools); asg++ {
			u2 := *u
			u2.Vars = append([]VarDecl{}, u.Vars...)
			same := true
			for k, idx := range bools {
				b := asg&(1<<k) != 0
				if u2.Vars[idx].Val.X.(bool) != b {
					same = false
				}
				u2.Vars[idx].Val = m.V{X: b}
			}
			if same {
				continue // the binding of the case: done above
			}
			rv2, rerr2 := (&m.Env{Vars: u2.Bound(), Fail: u2.Fail(), Custom: customModel()}).Eval(c.Tree)
			ev2, eagerOK2 := (&m.Env{Vars: u2.Bound(), Fail: u2.Fail(), Custom: customModel()}).EvalEager(c.Tree)
			var outs [16]Outcome
			for mask := 0; mask < 16; mask++ {
				o, v := runs[mask].againOut("C02 (all assignments of the boolean variables)", src, &u2, 2+asg, false)
				if v != nil {
					return v
				}
				outs[mask] = o
				if eagerOK2 && !(o.Err == nil && m.EqualVal(o.Val, ev2)) {
					return Violf("C02: every reachable operand succeeds, yet configuration %s does not return the value\n%s\nengine=%v\nexpected=%s", maskName(mask), runs[mask].describe(src, &u2), o, refString(ev2, nil))
				}
				if mask&MaskReorder == 0 && rerr2 == nil && !(o.Err == nil && m.EqualVal(o.Val, rv2)) {
					return Violf("C02: Reordering is off and left-to-right evaluation succeeds, yet configuration %s differs\n%s\nengine=%v\nunoptimized reference=%s", maskName(mask), runs[mask].describe(src, &u2), o, refString(rv2, nil))
				}
				for m2 := 0; m2 < mask; m2++ {
					if o.Err == nil && outs[m2].Err == nil && !m.EqualVal(o.Val, outs[m2].Val) {
						return Violf("C02: configurations %s and %s both return a value but not the same\nsrc=%s\nbinding=%v\n%s -> %v\n%s\n%s -> %v\n%s", maskName(mask), maskName(m2), src, describeU(&u2), maskName(mask), o, runs[mask].Dump, maskName(m2), outs[m2], runs[m2].Dump)
					}
				}
			}
		}
		r.Class(fmt.Sprintf("all-assignments-of-%d-boolean-variables", len(bools)))
	}

	// (h) an OperatorMap that also holds an entry under the name of a built-in operator the program uses
	// (RegisterOperator refuses such names, a hand-built map does not): whichever of the two the engine
	// calls, every configuration calls the same one - rule (a), model-free
	if hash64(src)%4 == 0 && !c.RawConst {
		shadowed := ""
		c.Tree.Walk(func(x *m.Node) {
			if shadowed == "" && x.Kind == m.KOp && m.IsBuiltin(x.Name) && !m.IsAnd(x.Name) && !m.IsOr(x.Name) {
				shadowed = x.Name
			}
		})
		if shadowed != "" {
			var outs [16]Outcome
			var dumps [16]string
			for mask := 0; mask < 16; mask++ {
				cc, _ := NewConfig(u, &Log{}, Build{Mask: mask, How: HowMapAll, Costs: c.Costs})
				cc.OperatorMap[shadowed] = func(*eval.Ctx, []eval.Value) (eval.Value, error) { return int64(424242), nil }
				e, co := SafeCompile(cc, src)
				if co.Panic != nil {
					return Violf("C02: Compile panics with an OperatorMap entry under the built-in name %q\nsrc=%s\n%v", shadowed, src, co)
				}
				if co.Err != nil {
					outs[mask] = co
					continue
				}
				dumps[mask], _ = SafeStr(func() string { return eval.Dump(e) })
				f := NewFetcher(u, cc, &Log{})
				outs[mask] = Safe(func() (eval.Value, error) { return e.Eval(f.Ctx()) })
				if outs[mask].Panic != nil {
					return Violf("C02: Eval panics with an OperatorMap entry under the built-in name %q (config %s)\nsrc=%s\n%v", shadowed, maskName(mask), src, outs[mask])
				}
				for m2 := 0; m2 < mask; m2++ {
					if outs[mask].Err == nil && outs[m2].Err == nil && !m.EqualVal(outs[mask].Val, outs[m2].Val) {
						return Violf("C02: with an OperatorMap entry under the built-in name %q configurations %s and %s both return a value but not the same\nsrc=%s\nbinding=%v\n%s -> %v\n%s\n%s -> %v\n%s", shadowed, maskName(mask), maskName(m2), src, describeU(u), maskName(mask), outs[mask], dumps[mask], maskName(m2), outs[m2], dumps[m2])
					}
				}
			}
			r.Class("operator-map-entry-under-a-built-in-name")
		}
	}

	// (f) a fetcher that hands integers over as Go int: whatever the engine makes of such values
	// (only eq/ne accept them), it makes the same of them in every configuration
	if c.RawVars {
		var outs [16]Outcome
		for mask := 0; mask < 16; mask++ {
			f := NewFetcher(u, runs[mask].Cfg, runs[mask].Log)
			f.Raw = true
			e := runs[mask].Expr
			outs[mask] = Safe(func() (eval.Value, error) { return e.Eval(f.Ctx()) })
			if outs[mask].Panic != nil {
				return Violf("C02: Eval panics with un-normalised integer bindings\n%s\n%v", runs[mask].describe(src, u), outs[mask])
			}
			// ... in particular FastEvaluation, which only changes how two-leaf operators get their
			// operands, changes nothing at all: same value, or an error on both sides (what an operator
			// makes of a foreign value is the engine's business - that it is the same on every path is C02's)
			if mask&MaskFast != 0 && mask&MaskReorder == 0 { // (with Reordering the two programs may order their operands differently)
				if twin := outs[mask&^MaskFast]; !SameOutcomeLoose(outs[mask], twin) {
					return Violf("C02: with un-normalised integer bindings (Go int / int32 handed over by the fetcher) switching FastEvaluation on changes the outcome\nsrc=%s\nraw binding=%v\n%s -> %v\n%s\n%s -> %v\n%s", src, rawBound(u.Bound()), maskName(mask&^MaskFast), twin, runs[mask&^MaskFast].Dump, maskName(mask), outs[mask], runs[mask].Dump)
				}
			}
			for m2 := 0; m2 < mask; m2++ {
				if outs[mask].Err == nil && outs[m2].Err == nil && !m.EqualVal(outs[mask].Val, outs[m2].Val) {
					return Violf("C02: with un-normalised integer bindings (Go int / int32 handed over by the fetcher) configurations %s and %s both return a value but not the same\nsrc=%s\nbinding=%v\n%s -> %v\n%s\n%s -> %v\n%s", maskName(mask), maskName(m2), src, describeU(u), maskName(mask), outs[mask], runs[mask].Dump, maskName(m2), outs[m2], runs[m2].Dump)
				}
			}
		}
		r.Class("raw-integer-bindings")
	}
	if c.RawConst {
		r.Class("raw-typed-constant-compared")
	}
	if eagerOK {
		r.Class("all-reachable-succeed")
	}
	if rerr != nil {
		r.Class("unoptimized-errors")
	}
	hasNaN := false
	for _, ce := range c.Costs {
		if f := ce.F(); math.IsNaN(f) || math.IsInf(f, 0) {
			hasNaN = true
		}
	}
	if hasNaN {
		r.Class("nan-or-inf-cost")
	}
	if runs[15].Dump != runs[7].Dump {
		r.Class("reordering-changed-program")
	}
	r.Class(fmt.Sprintf("dumps-differing-from-unoptimized:%02d", differ))
	if differ >= 2 {
		r.NonTrivial(src+fmt.Sprint(describeU(u))+fmt.Sprint(c.Costs), func() interface{} {
			return map[string]interface{}{"src": clip(src, 300), "binding": describeU(u), "costs": c.Costs, "dump_all_on": clip(runs[15].Dump, 300), "unoptimized_result": refString(rv, rerr)}
		})
	}
	return nil
}

var propC02 = Prop[C02Case]{
	ID:    "C02",
	Rule:  "typed random expression (all variables bound, failures from operators only) x cost map (incl. NaN/Inf/huge/negative) compiled under all 16 optimization subsets, each expressed in several ways (full map, sparse map, Optimizations option, ;;;; directives in 8 spellings (two of them say the opposite first and rely on the later directive winning), the directive over a config that says the opposite, options set on a CopyConfig / ExtendConf copy of a config that says the opposite); oracles: pairwise equal values, R_eager value everywhere, R value without Reordering, identical Dump/DumpTable across the four ways, outcome = R/R_fast on the configuration's own Dump. Whole-run bracket: 30 canary cases x 16 subsets give the same programs and outcomes before the first and after the last case of the shard. (g) for programs with 1..5 bound boolean variables ALL their assignments are run through all 16 compiled programs (every path through the and/or/if structure): result and effects of each = the reference on its own dump, and (a)-(c) hold for every assignment. Sweep: a variable at an end of int64 folded with two constants by one n-ary arithmetic call. Non-trivial = at least two of the 16 dumps differ from the unoptimized dump; distinct by source + binding + costs",
	Gen:   genC02,
	Check: checkC02,
	Sweep: sweepC02,
}

// sweepC02: one variable folded with two constants by an n-ary arithmetic call,
// the variable at an end of int64 or at -1 - every configuration returns what left-to-right wrap-around
// arithmetic returns (a regrouping of the constant operands would not).
func sweepC02(tier string, shard, shards int, emit func(C02Case)) {
	ks := []int64{-1, 2, math.MinInt64, 3}
	xs := []int64{math.MinInt64, math.MaxInt64, -1, math.MinInt64 + 1}
	n := 0
	for _, op := range []string{"/", "div", "-", "%", "*", "+"} {
		for _, k1 := range ks {
			for _, k2 := range ks {
				for vpos := 0; vpos < 2; vpos++ {
					for _, x := range xs {
						n++
						if n%shards != shard {
							continue
						}
						kids := []*m.Node{m.Var("i0"), m.Const(k1), m.Const(k2)}
						if vpos == 1 {
							kids[0], kids[1] = kids[1], kids[0]
						}
						tree := wrapRoot(m.Op(op, kids...)) // (the number itself is the result: a comparison would hide most differences)
						u := Universe{RegMode: RegGetOrReg, Vars: []VarDecl{{Name: "i0", Ty: m.TInt, Val: m.V{X: x}}}}
						emit(C02Case{U: u, Tree: tree, Src: m.Render(tree)})
					}
				}
			}
		}
	}
	// between over single-point, adjacent and inverted constant ranges, the value on and next to the bounds
	for _, k := range []int64{0, 3, -1, math.MaxInt64 - 1, math.MinInt64 + 1} {
		for _, d := range []int64{0, 1, -1} {
			for _, x := range []int64{k, k - 1, k + 1, k + d} {
				n++
				if n%shards != shard {
					continue
				}
				tree := wrapRoot(m.Op("between", m.Var("i0"), m.Const(k), m.Const(k+d)))
				u := Universe{RegMode: RegGetOrReg, Vars: []VarDecl{{Name: "i0", Ty: m.TInt, Val: m.V{X: x}}}}
				emit(C02Case{U: u, Tree: tree, Src: m.Render(tree)})
			}
		}
	}
}

// c02Ask: what the 16 configurations make of a case (programs and outcomes), for the whole-run bracket.
func c02Ask(c C02Case) string {
	u := &c.U
	if u.RegMode == RegVarAndOp {
		u.RegMode = RegGetOrReg // (RegVarAndOp assigns keys in Go map order: not a function of the case)
	}
	src := m.Render(c.Tree)
	out := ""
	for mask := 0; mask < 16; mask++ {
		run, v := runCfg("C02", u, src, Build{Mask: mask, How: HowMapAll, Costs: c.Costs})
		if v != nil {
			out += maskName(mask) + ": " + v.Msg + "\n"
			continue
		}
		out += fmt.Sprintf("%s: %s\n%s\n%v\n", maskName(mask), run.Dump, run.Table, run.Out)
	}
	return out
}

func init() {
	propC02.Before, propC02.After = canaryBracket("C02", 30, genC02, c02Ask)
}

func TestC02(t *testing.T)       { Run(t, propC02) }
func TestC02Replay(t *testing.T) { Replay(t, propC02) }

// boundBools: indexes of the universe's bound boolean variables.
func boundBools(u *Universe) []int {
	var out []int
	for i, v := range u.Vars {
		if _, ok := v.Val.X.(bool); ok && v.Mode == 0 && v.Ty == m.TBool {
			out = append(out, i)
		}
	}
	return out
}
