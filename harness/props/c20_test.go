package props

import (
	"fmt"
	"math"
	"math/rand"
	"sort"
	"strings"
	"testing"
	"time"

	"github.com/onheap/eval"
	"pgregory.net/rapid"

	m "verifharness/model"
)

// C20 – GenerateRandomExpr reports the true value of the expression it generates.

type C20Case struct {
	Seed    int64            `json:"seed"`
	Level   int              `json:"level"`
	Number  bool             `json:"number"` // GenNumber (else GenBool)
	Var     bool             `json:"enable_variable"`
	Cond    bool             `json:"enable_condition"`
	Try     bool             `json:"enable_try_eval"`
	Nums    map[string]int64 `json:"nums,omitempty"`
	Bools   map[string]bool  `json:"bools,omitempty"`
	Dnes    []string         `json:"dnes,omitempty"`
	IntKind int              `json:"int_kind,omitempty"` // Go type the numeric variables are handed over as: 0 int64, 1 int, 2 int32, 3 int16, 4 time.Duration (that many seconds plus a sub-second rest), 5 time.Time
}

func genC20(t *rapid.T) C20Case {
	c := C20Case{
		Seed:    rapid.Int64().Draw(t, "seed"),
		Level:   rapid.IntRange(0, depthMax(9, 12)).Draw(t, "level"),
		Number:  rapid.Bool().Draw(t, "number"),
		Var:     rapid.Bool().Draw(t, "var"),
		Cond:    rapid.Bool().Draw(t, "cond"),
		Try:     rapid.Bool().Draw(t, "try"),
		IntKind: rapid.IntRange(0, 5).Draw(t, "intkind"),
	}
	// "every level from 0 up": one case in 25 asks for a high level (the generator recurses level
	// by level, an operand's level is drawn below its parent's)
	if rapid.IntRange(0, 24).Draw(t, "highlevel") == 0 {
		c.Level = rapid.SampledFrom([]int{13, 16, 20, 31, 32, 33, 40, 54, 63, 64, 65, 66, 70, 80, 100, 127, 128, 129}).Draw(t, "level_high")
	}
	nn := rapid.IntRange(0, 4).Draw(t, "nnums")
	c.Nums = map[string]int64{}
	for i := 0; i < nn; i++ {
		c.Nums[fmt.Sprintf("n%d", i)] = rapid.SampledFrom([]int64{0, 1, -1, 2, 7, -13, 100, 0, math.MinInt64, math.MaxInt64, -1, 1 << 24, 20000000, 1 << 30, -(1 << 27), math.MinInt32, math.MaxInt32, math.MinInt32, -2, 3}).Draw(t, "numval")
	}
	// now and then: just a most-negative value of some width and -1, in a small numeric expression
	// (the one division whose quotient does not fit that width)
	if rapid.IntRange(0, 9).Draw(t, "divpair") == 0 {
		c.Nums = map[string]int64{"n0": rapid.SampledFrom([]int64{math.MinInt32, math.MinInt64, math.MinInt16, math.MinInt8, -(1 << 53)}).Draw(t, "floor"), "n1": -1}
		c.Number, c.Var, c.Try = true, true, false
		c.Level = rapid.IntRange(1, 3).Draw(t, "divlevel")
	}
	nb := rapid.IntRange(0, 3).Draw(t, "nbools")
	c.Bools = map[string]bool{}
	for i := 0; i < nb; i++ {
		c.Bools[fmt.Sprintf("p%d", i)] = rapid.Bool().Draw(t, "boolval")
	}
	nd := rapid.IntRange(0, 3).Draw(t, "ndnes")
	for i := 0; i < nd; i++ {
		c.Dnes = append(c.Dnes, fmt.Sprintf("d%d", i))
	}
	return c
}

type c20NamedBool bool
type c20NamedInt int

func checkC20(c C20Case, r *Rec) *Violation {
	// options, variables passed one by one in sorted order so that the run is deterministic
	var opts []eval.GenExprOption
	if c.Number {
		opts = append(opts, eval.GenType(eval.GenNumber))
	} else {
		opts = append(opts, eval.GenType(eval.GenBool))
	}
	if c.Var {
		opts = append(opts, eval.EnableVariable)
	}
	if c.Cond {
		opts = append(opts, eval.EnableCondition)
	}
	if c.Try {
		opts = append(opts, eval.EnableTryEval)
	}
	// Every variable lives in a map of its own that the harness keeps: the option values built
	// from these maps are used for a first generation with other values in the maps, then the
	// maps are set to the real values and the SAME option values are used again - the result
	// must follow the contents of the maps at the time of the call.
	var owned []map[string]interface{}
	var real []interface{}
	for _, n := range sortedKeys(c.Nums) {
		var raw interface{} = c.Nums[n]
		switch c.IntKind % 6 { // the documented normalisation makes these the same variable
		case 4:
			if v := c.Nums[n]; v > -9000000000 && v < 9000000000 {
				rest := []int64{999999999, 0, 999999998, 1, 500000000}[(uint64(v)+uint64(len(n)))%5]
				if v < 0 {
					rest = -rest
				}
				raw = time.Duration(v*1000000000 + rest)
			}
		case 5:
			if v := c.Nums[n]; v > -60000000000 && v < 250000000000 {
				raw = time.Unix(v, []int64{0, 999999999, 1}[uint64(v)%3]).UTC()
			}
		case 1:
			raw = int(c.Nums[n])
		case 2:
			if v := c.Nums[n]; v == int64(int32(v)) {
				raw = int32(v)
			}
		case 3:
			if v := c.Nums[n]; v == int64(int16(v)) {
				raw = int16(v)
			}
		}
		mm := map[string]interface{}{n: int64(5)} // decoy value for the first generation
		owned, real = append(owned, mm), append(real, raw)
		opts = append(opts, eval.GenVariables(mm))
	}
	for _, n := range sortedKeys(c.Bools) {
		mm := map[string]interface{}{n: !c.Bools[n]}
		owned, real = append(owned, mm), append(real, c.Bools[n])
		opts = append(opts, eval.GenVariables(mm))
	}
	dnes := append([]string{}, c.Dnes...)
	sort.Strings(dnes)
	for _, n := range dnes {
		opts = append(opts, eval.GenVariables(map[string]interface{}{n: eval.DNE}))
	}

	// variables of types the engine does not take (it normalises the listed integer kinds and nothing
	// else): handed over all the same, they can only be ignored
	if c.Seed%3 == 0 {
		for _, mm := range []map[string]interface{}{{"zu_uint": uint(5)}, {"zm_month": time.Month(3)}, {"zf_float": 2.5}, {"zs_str": "x"}, {"zb_named": c20NamedBool(true)}, {"zi_named": c20NamedInt(4)}, {"zn_nil": nil}} {
			opts = append(opts, eval.GenVariables(mm))
		}
	}
	// the call before this one had other unavailable variables: nothing of it may show up here
	firstOpts := append(append([]eval.GenExprOption{}, opts...), eval.GenVariables(map[string]interface{}{"zz_stale_1": eval.DNE}), eval.GenVariables(map[string]interface{}{"zz_stale_2": eval.DNE}), eval.EnableTryEval, eval.EnableVariable)
	var gen eval.GenExprResult
	o := Safe(func() (eval.Value, error) {
		_ = eval.GenerateRandomExpr(c.Level, rand.New(rand.NewSource(c.Seed+1)), firstOpts...) // first use of the option values (decoy contents)
		for i, mm := range owned {
			for k := range mm {
				mm[k] = real[i]
			}
		}
		gen = eval.GenerateRandomExpr(c.Level, rand.New(rand.NewSource(c.Seed)), opts...)
		return nil, nil
	})
	if o.Panic != nil {
		return Violf("C20: GenerateRandomExpr panics (seed %d level %d): %v", c.Seed, c.Level, o)
	}
	where := func() string {
		return fmt.Sprintf("seed=%d level=%d number=%v variable=%v condition=%v tryeval=%v nums=%v (handed over as Go type kind %d) bools=%v dnes=%v\nexpr=%s\nreported=%v (%T)", c.Seed, c.Level, c.Number, c.Var, c.Cond, c.Try, c.Nums, c.IntKind, c.Bools, c.Dnes, clip(gen.Expr, 1500), gen.Res, gen.Res)
	}

	// the reference value: the harness's own reader + R / K
	tree, err := m.ReadDump(gen.Expr)
	if err != nil {
		return Violf("C20: the generated text is not a well-formed prefix expression: %v\n%s", err, where())
	}
	vars := map[string]interface{}{}
	for n, v := range c.Nums {
		vars[n] = v // (the raw value handed over normalises to exactly this number)
	}
	for n, v := range c.Bools {
		vars[n] = v
	}
	avail := map[string]bool{}
	for n := range vars {
		avail[n] = true
	}
	usesDNE := false
	for _, n := range tree.VarNames() {
		if _, ok := vars[n]; !ok {
			isDne := false
			for _, d := range c.Dnes {
				if d == n {
					isDne = true
				}
			}
			if !isDne {
				return Violf("C20: the expression uses a variable it was not given for this call, or one of a type the engine does not take (z*_ names; zz_stale_* were given to the PREVIOUS call only): %s\n%s", n, where())
			}
			usesDNE = true
		}
	}
	var want interface{}
	func() {
		defer func() {
			if p := recover(); p != nil {
				err = fmt.Errorf("%v", p)
			}
		}()
		if usesDNE {
			env := &m.Env{Vars: vars}
			want = env.Kleene(tree, avail)
		} else {
			env := &m.Env{Vars: vars}
			want, err = env.Eval(tree)
		}
	}()
	if err != nil {
		return Violf("C20: the generated expression fails under the reference semantics: %v\n%s", err, where())
	}
	var res interface{} = gen.Res
	if gen.Res == eval.DNE {
		res = m.DNE
	}
	if !m.EqualVal(res, want) {
		return Violf("C20: the reported result differs from the reference value %s\n%s", refString(want, nil), where())
	}
	if usesDNE && !c.Try {
		return Violf("C20: a DNE variable is used although EnableTryEval is off\n%s", where())
	}

	// the engine: compile with exactly the variables given, every configuration
	bare := !strings.Contains(gen.Expr, "(")
	for mask := 0; mask < 16; mask++ {
		if c.Level > 12 && mask%4 != int(uint64(c.Seed)%4) {
			continue // high levels: programs of tens of thousands of nodes, 4 of the 16 subsets (rotating with the seed)
		}
		cc := eval.NewConfig()
		for i, op := range allOpts {
			cc.CompileOptions[op] = mask&(1<<i) != 0
		}
		k := eval.VariableKey(1)
		for _, n := range sortedKeys(vars) {
			cc.VariableKeyMap[n] = k
			k++
		}
		for _, n := range dnes {
			cc.VariableKeyMap[n] = k
			k++
		}
		if bare {
			eval.EnableInfixNotation(cc) // a bare atom is a program in infix notation only
		}
		e, co := SafeCompile(cc, gen.Expr)
		if co.Panic == nil && co.Err != nil && countNodes(tree) > 32767 {
			// the expression as generated has more nodes than a compiled program can have (C09's limit):
			// a genuine breach of "returns an expression that compiles", recorded as an open finding under
			// exactly this signature; the reported result was checked against the reference above
			if r.KnownHit("C20", "C20-high-level-exceeds-node-limit") {
				r.Class("known:high-level-exceeds-node-limit")
				continue
			}
		}
		if co.Panic != nil || co.Err != nil {
			return Violf("C20: the generated expression does not compile with the variables it was given (config %s): %v\n%s", maskName(mask), co, where())
		}
		f := &Fetcher{Vars: vars, Log: &Log{}, Avail: avail}
		if !usesDNE {
			oe := Safe(func() (eval.Value, error) { return e.Eval(f.Ctx()) })
			if oe.Panic != nil || oe.Err != nil || !m.EqualVal(oe.Val, want) {
				return Violf("C20: Eval (config %s) returns %v, reported result is %v\n%s", maskName(mask), oe, gen.Res, where())
			}
		}
		ot := Safe(func() (eval.Value, error) { return e.TryEval(f.Ctx()) })
		var tv interface{} = ot.Val
		if ot.Val == eval.DNE {
			tv = m.DNE
		}
		if ot.Panic != nil || ot.Err != nil || !m.EqualVal(tv, want) {
			return Violf("C20: TryEval (config %s) returns %v, reported result is %v\n%s", maskName(mask), ot, gen.Res, where())
		}
	}
	if bare {
		// prefix notation rejects a bare atom: the generator's level-0 base case
		cc := eval.NewConfig()
		for n := range vars {
			eval.GetOrRegisterKey(cc, n)
		}
		for _, n := range dnes {
			eval.GetOrRegisterKey(cc, n)
		}
		if _, co := SafeCompile(cc, gen.Expr); co.Err != nil || co.Panic != nil {
			if c.Level == 0 && r.KnownHit("C20", "C20-level0-bare-atom") {
				r.Class("known:level0-bare-atom")
				return nil
			}
			return Violf("C20: the generated expression is a bare atom, which prefix-notation Compile rejects: %v\n%s", co, where())
		}
	}

	r.Class(fmt.Sprintf("level:%02d", c.Level))
	hasVar := len(tree.VarNames()) > 0
	hasIf := false
	tree.Walk(func(x *m.Node) {
		if x.Kind == m.KIf {
			hasIf = true
		}
	})
	if usesDNE {
		r.Class("uses-dne-variable")
	}
	if hasIf {
		r.Class("has-if")
	}
	if c.Level >= 1 && (hasVar || hasIf) {
		r.NonTrivial(gen.Expr+fmt.Sprint(vars), func() interface{} {
			return map[string]interface{}{"seed": c.Seed, "level": c.Level, "expr": clip(gen.Expr, 300), "reported": fmt.Sprint(gen.Res)}
		})
	}
	return nil
}

var propC20 = Prop[C20Case]{
	ID:    "C20",
	Rule:  "seed (any int64) x level 0..9 (12 thorough; one case in 25 a level from 13 to 129, compiled under 4 of the 16 subsets) x result type x every subset of {EnableVariable, EnableCondition, EnableTryEval} x drawn variable maps (0-4 ints incl. 0 and negatives, 0-3 bools, 0-3 DNE variables); the returned text is read by the harness's own S-expression reader and evaluated by R (no DNE variable used) or K (with them): reported Res must equal it and the reference must not fail; then Compile with exactly the given variables and Eval/TryEval under all 16 optimization subsets must return Res. Non-trivial = level >= 1 and the expression contains a variable or an if; distinct by expression text + variables",
	Gen:   genC20,
	Check: checkC20,
}

func TestC20(t *testing.T)       { Run(t, propC20) }
func TestC20Replay(t *testing.T) { Replay(t, propC20) }
