package props

import (
	"errors"
	"fmt"
	"strings"
	"testing"

	"github.com/onheap/eval"
	"pgregory.net/rapid"

	m "verifharness/model"
)

// C05 – TryEval is at least as informative as three-valued (Kleene) evaluation.

type C05Case struct {
	U     Universe `json:"u"`
	Tree  *m.Node  `json:"tree"`
	Avail []string `json:"avail"` // available variables; every other referenced variable is unavailable
	Src   string   `json:"src"`
}

// staticTy is the static type of a generated expression.
func staticTy(n *m.Node) m.Ty {
	switch n.Kind {
	case m.KConst:
		switch n.Val.(type) {
		case int64:
			return m.TInt
		case bool:
			return m.TBool
		case string:
			return m.TStr
		case []int64:
			return m.TIntList
		default:
			return m.TStrList
		}
	case m.KVar:
		return tyOfVar(n.Name)
	case m.KIf:
		return staticTy(n.Kids[1])
	}
	switch m.Aliases[n.Name] {
	case "add", "sub", "mul", "div", "mod", "version", "date", "datetime", "t_time", "td_time", "td_date":
		return m.TInt
	case "":
		switch n.Name {
		case "c_id":
			return staticTy(n.Kids[0])
		case "c_sum", "c_cnt":
			return m.TInt
		case "c_cat":
			return m.TStr
		}
		return m.TBool
	}
	return m.TBool
}

func safeLiteral(ty m.Ty) interface{} {
	switch ty {
	case m.TInt:
		return int64(1)
	case m.TBool:
		return true
	case m.TStr:
		return "a"
	case m.TIntList:
		return []int64{1}
	}
	return []string{"a"}
}

// repairNonFailing replaces every sub-tree that fails on its own under the full
// binding by a literal of its static type, until nothing fails. Returns the
// number of replacements (cases are repaired, never discarded).
func repairNonFailing(tree *m.Node, u *Universe) int {
	n := 0
	for iter := 0; iter < 50; iter++ {
		var bad []*m.Node
		env := &m.Env{Vars: u.Bound(), Fail: u.Fail(), Custom: customModel()}
		if _, ok := env.EvalAll(tree, func(x *m.Node) { bad = append(bad, x) }); ok {
			return n
		}
		for _, x := range bad {
			ty := staticTy(x)
			x.Kind, x.Name, x.Kids, x.Val = m.KConst, "", nil, safeLiteral(ty)
			n++
		}
	}
	panic("repairNonFailing did not converge")
}

func genTrySplit(t *rapid.T, tree *m.Node, always []string) (avail []string) {
	names := tree.VarNames()
	mode := pickW(t, "availmode", 10, 1, 1)
	for _, n := range names {
		forced := false
		for _, a := range always {
			if a == n {
				forced = true
			}
		}
		if forced {
			continue
		}
		switch mode {
		case 1: // everything available
			avail = append(avail, n)
		case 2: // nothing available
		default:
			if rapid.Bool().Draw(t, "avail_"+n) {
				avail = append(avail, n)
			}
		}
	}
	// the split mode promises at least one unavailable variable when there is one to choose
	if mode == 0 && len(avail) > 0 && len(avail)+len(always) == len(names) {
		i := rapid.IntRange(0, len(avail)-1).Draw(t, "force_unavail")
		avail = append(avail[:i:i], avail[i+1:]...)
	}
	return
}

func genC05(t *rapid.T) C05Case {
	g := &G{t: t, GenCfg: GenCfg{
		Depth:    rapid.IntRange(2, depthMax(6, 8)).Draw(t, "depth"),
		MaxArity: rapid.IntRange(2, arityMax(5, 8)).Draw(t, "maxarity"),
		Custom:   true, Consts: true, Aliases: true, BoolW: 8, VarW: 14,
	}}
	var tree *m.Node
	var wish map[string]bool
	if rapid.IntRange(0, 5).Draw(t, "chain") == 0 {
		tree, wish = decisionChain(t) // one innermost boolean decides a chain of and/or levels through nested ifs
	} else {
		tree = wrapRoot(g.Program(rootTy(t)))
	}
	fixEmptyLists(tree)
	u := UniverseFor(t, tree, false)
	applyWishes(u, wish)
	repairNonFailing(tree, u)
	tree = wrapRoot(tree)
	caseTwins(t, tree, u)
	return C05Case{U: *u, Tree: tree, Avail: genTrySplit(t, tree, nil), Src: m.Render(tree)}
}

func availSet(names []string) map[string]bool {
	out := map[string]bool{}
	for _, n := range names {
		out[n] = true
	}
	return out
}

// c05LibraryContexts runs TryEval through contexts built by the library itself (NewCtxFromVars),
// arranged so that they report availability truthfully: (all) every variable supplied, whatever
// fetcher the layout selects; (map) a layout that selects the map-backed fetcher, which holds
// exactly the supplied names; (slice) the available variables registered first, the context built
// from that smaller config, the program compiled with the config extended by the unavailable
// ones - their keys lie beyond the slice. The Kleene oracle is the same as for the instrumented fetcher.
func c05LibraryContexts(c C05Case, mask int, k, full interface{}, r *Rec) *Violation {
	u := &c.U
	src := m.Render(c.Tree)
	avail := availSet(c.Avail)
	names := c.Tree.VarNames()
	availVals := map[string]interface{}{}
	for _, n := range names {
		if avail[n] {
			availVals[n] = u.Var(n).Val.X
		}
	}
	check := func(what string, e *eval.Expr, ctx *eval.Ctx, keys map[string]eval.VariableKey) *Violation {
		where := func() string {
			return fmt.Sprintf("context=%s (%T)\nconfig=%s\nsrc=%s\ndump=%s\nsupplied=%v\nkey map=%v\nbinding=%v", what, ctx.VariableFetcher, maskName(mask), src, eval.Dump(e), c.Avail, keys, describeU(u))
		}
		o := Safe(func() (eval.Value, error) { return e.TryEval(ctx) })
		if o.Panic != nil {
			return Violf("C05: TryEval panics\n%s\n%v", where(), o)
		}
		if o.Err != nil {
			return Violf("C05: TryEval returns an error although no sub-expression fails\n%s\n%v", where(), o)
		}
		if !m.IsDNE(k) && !m.EqualVal(o.Val, k) {
			return Violf("C05: three-valued evaluation is definite but TryEval does not return its value\n%s\nTryEval=%v\nKleene=%s", where(), o, refString(k, nil))
		}
		var bres bool
		ob := Safe(func() (eval.Value, error) { b, err := e.TryEvalBool(ctx); bres = b; return b, err })
		if o.Val == eval.DNE {
			if !errors.Is(ob.Err, eval.ErrDNE) {
				return Violf("C05: TryEval is undecided but TryEvalBool does not report ErrDNE\n%s\nTryEvalBool=%v", where(), ob)
			}
		} else if b, isBool := o.Val.(bool); isBool && (ob.Err != nil || bres != b) {
			return Violf("C05: TryEvalBool differs from TryEval\n%s\nTryEval=%v TryEvalBool=%v", where(), o, ob)
		}
		r.Class("library-context:" + what)
		return nil
	}
	compile := func(uu *Universe) (*eval.Config, *eval.Expr, *Violation) {
		cc, _ := NewConfig(uu, &Log{}, Build{Mask: mask})
		e, co := SafeCompile(cc, src)
		if co.Panic != nil || co.Err != nil {
			return nil, nil, Violf("C05: compile failed\nsrc=%s\n%v", src, co)
		}
		return cc, e, nil
	}
	// a fetcher of the caller's that EMBEDS the library's map fetcher - which holds a value for every
	// variable, stale ones for the unavailable - and overrides Cached with the truth: TryEval goes by
	// the override (C04's premise is what Cached says, not what the map happens to hold)
	{
		um := *u
		um.RegMode = RegUndefined
		cc, e, v := compile(&um)
		if v != nil {
			return v
		}
		all := map[string]interface{}{}
		for _, n := range names {
			all[n] = u.Var(n).Val.X
		}
		w := &freshnessFetcher{MapVarFetcher: eval.NewMapVarFetcher(all), fresh: avail}
		if v := check("caller-fetcher-embedding-the-map-fetcher", e, &eval.Ctx{VariableFetcher: w}, cc.VariableKeyMap); v != nil {
			return v
		}
	}
	// compiled in undefined-variable mode while no name was registered, the names registered on the same
	// config afterwards, the context built by the library from that config with every value supplied:
	// everything is available, TryEval returns the value of the expression
	if mask != 15 {
		um := *u
		um.RegMode = RegUndefined
		cc, e, v := compile(&um)
		if v != nil {
			return v
		}
		all := map[string]interface{}{}
		for _, n := range names {
			eval.GetOrRegisterKey(cc, n)
			all[n] = u.Var(n).Val.X
		}
		ctx, v := safeNewCtx("C05", cc, all)
		if v != nil {
			return v
		}
		if o := Safe(func() (eval.Value, error) { return e.TryEval(ctx) }); o.Panic != nil || o.Err != nil || !m.EqualVal(o.Val, full) {
			return Violf("C05: a program compiled in undefined-variable mode before its variables were registered, tried over NewCtxFromVars(config after the registrations, every value) (%T), does not return the value of the expression\nconfig=%s src=%s\nTryEval=%v\nvalue=%s\nbinding=%v\nkey map=%v", ctx.VariableFetcher, maskName(mask), src, o, refString(full, nil), describeU(u), cc.VariableKeyMap)
		}
		r.Class("library-context:names-registered-after-compilation")
	}
	// no variable at all: every variable replaced by its value. Such a program needs no fetcher, and
	// gets none - a nil *Ctx, an empty Ctx
	if mask != 15 {
		t0 := c.Tree.Clone()
		ok := true
		t0.Walk(func(x *m.Node) {
			if x.Kind == m.KVar {
				x.Kind, x.Val, x.Name = m.KConst, u.Var(x.Name).Val.X, ""
				if l, isInts := x.Val.([]int64); isInts && len(l) == 0 {
					ok = false // (a typed empty list has no literal form)
				}
			}
		})
		if ok {
			cc, _ := NewConfig(u, &Log{}, Build{Mask: mask})
			src0 := m.Render(t0)
			if e0, co := SafeCompile(cc, src0); co.Panic == nil && co.Err == nil {
				for _, ctx := range []*eval.Ctx{nil, {}} {
					o := Safe(func() (eval.Value, error) { return e0.TryEval(ctx) })
					if o.Panic != nil || o.Err != nil {
						r.Class("library-context:none-refused") // (calling without a context / fetcher is not documented: refusing it is the engine's right)
						continue
					}
					if !m.EqualVal(o.Val, full) {
						return Violf("C05: a program without variables, tried with %s, does not return its value\nconfig=%s\nsrc=%s\nTryEval=%v\nvalue=%s", map[bool]string{true: "a nil *Ctx", false: "an empty Ctx"}[ctx == nil], maskName(mask), src0, o, refString(full, nil))
					}
				}
				r.Class("library-context:none-needed")
			}
		}
	}
	if len(availVals) == len(names) {
		cc, e, v := compile(u)
		if v != nil {
			return v
		}
		ctx, v := safeNewCtx("C05", cc, availVals)
		if v != nil {
			return v
		}
		return check("all-supplied", e, ctx, cc.VariableKeyMap)
	}
	// (map) undefined-variable mode, or keys outside 0..255
	um := *u
	switch mask % 3 {
	case 0:
		um.RegMode = RegUndefined
	case 1:
		um.RegMode, um.KeyBase, um.KeyStride = RegExplicit, 250, 1
		if len(um.Vars) < 7 {
			um.KeyBase = 256
		}
	default:
		um.RegMode, um.KeyBase, um.KeyStride = RegExplicit, -2, 1
	}
	cc, e, v := compile(&um)
	if v != nil {
		return v
	}
	ctx, v := safeNewCtx("C05", cc, availVals)
	if v != nil {
		return v
	}
	if v := check("map-backed", e, ctx, cc.VariableKeyMap); v != nil {
		return v
	}
	// the rest arrives through Set: the same context now gives the value
	for _, n := range names {
		if !avail[n] {
			key, ok := cc.VariableKeyMap[n]
			if !ok {
				key = eval.UndefinedVarKey
			}
			_ = ctx.Set(key, n, u.Var(n).Val.X)
		}
	}
	if o := Safe(func() (eval.Value, error) { return e.TryEval(ctx) }); o.Panic != nil || o.Err != nil || !m.EqualVal(o.Val, full) {
		return Violf("C05: after Ctx.Set supplied the missing variables TryEval does not return the value of the expression\nconfig=%s src=%s\nTryEval=%v\nvalue=%s\nbinding=%v", maskName(mask), src, o, refString(full, nil), describeU(u))
	}
	// (slice, placeholders) keys 1..n, the context built with the available values and the DNE marker for the
	// others (the documented way of creating an unavailable slot); Kleene oracle; then Ctx.Set fills them
	// in on the same context and TryEval returns the value of the expression
	{
		up := *u
		up.RegMode, up.Decoys = RegGetOrReg, false
		ccP, eP, v := compile(&up)
		if v != nil {
			return v
		}
		withMarkers := map[string]interface{}{}
		for n, val := range availVals {
			withMarkers[n] = val
		}
		for _, n := range names {
			if !avail[n] {
				withMarkers[n] = eval.DNE
			}
		}
		ctxP, v := safeNewCtx("C05", ccP, withMarkers)
		if v != nil {
			return v
		}
		if v := check("slice-backed-with-DNE-placeholders", eP, ctxP, ccP.VariableKeyMap); v != nil {
			return v
		}
		for _, n := range names {
			if !avail[n] {
				_ = ctxP.Set(ccP.VariableKeyMap[n], n, u.Var(n).Val.X)
			}
		}
		if o := Safe(func() (eval.Value, error) { return eP.TryEval(ctxP) }); o.Panic != nil || o.Err != nil || !m.EqualVal(o.Val, full) {
			return Violf("C05: after Ctx.Set replaced the DNE placeholders (%T) TryEval does not return the value of the expression\nconfig=%s src=%s\nTryEval=%v\nvalue=%s\nbinding=%v", ctxP.VariableFetcher, maskName(mask), src, o, refString(full, nil), describeU(u))
		}
	}
	// (slice) available variables first, context from the smaller config
	us := *u
	us.RegMode, us.Vars, us.Decoys = RegGetOrReg, nil, false // (nothing may be registered after the unavailable variables)
	for _, vd := range u.Vars {
		if avail[vd.Name] {
			us.Vars = append(us.Vars, vd)
		}
	}
	nAvail := len(us.Vars)
	for _, vd := range u.Vars {
		if !avail[vd.Name] {
			us.Vars = append(us.Vars, vd)
		}
	}
	ccB, eB, v := compile(&us)
	if v != nil {
		return v
	}
	ccA := eval.CopyConfig(ccB)
	for _, vd := range us.Vars[nAvail:] {
		delete(ccA.VariableKeyMap, vd.Name)
	}
	ctxA, v := safeNewCtx("C05", ccA, availVals)
	if v != nil {
		return v
	}
	return check("slice-backed-from-the-smaller-config", eB, ctxA, ccB.VariableKeyMap)
}

// freshnessFetcher embeds the library's map fetcher and overrides Cached (a TTL / freshness wrapper).
type freshnessFetcher struct {
	eval.MapVarFetcher
	fresh map[string]bool
}

func (f *freshnessFetcher) Cached(_ eval.VariableKey, name string) bool { return f.fresh[name] }

func checkC05(c C05Case, r *Rec) *Violation {
	u := &c.U
	src := m.Render(c.Tree)
	avail := availSet(c.Avail)
	env := &m.Env{Vars: u.Bound(), Fail: u.Fail(), Custom: customModel()}
	if _, ok := env.EvalAll(c.Tree, nil); !ok {
		return nil // not in the property's domain (possible only for hand-written corpus cases)
	}
	kenv := &m.Env{Vars: u.Bound(), Custom: customModel()}
	k := kenv.Kleene(c.Tree, avail)
	full, _ := (&m.Env{Vars: u.Bound(), Custom: customModel()}).Eval(c.Tree)
	nUnavail := 0
	for _, n := range c.Tree.VarNames() {
		if !avail[n] {
			nUnavail++
		}
	}
	describe := func(mask int, e *eval.Expr) string {
		return fmt.Sprintf("config=%s\nsrc=%s\ndump=%s\navailable=%v\nbinding=%v", maskName(mask), src, eval.Dump(e), c.Avail, describeU(u))
	}
	// the smallest programs there are: one variable on its own (a program in infix notation only). Three-valued
	// evaluation of a lone unavailable variable is DNE - not an error, not a default value -, of an available one its value
	for i, name := range c.Tree.VarNames() {
		if i >= 3 || u.Var(name) == nil || u.Var(name).Mode != 0 || m.IsBuiltin(name) || tyOfVarSafe(name) < 0 {
			continue // (only names of the plain kind: b0, i3, B0 ...)
		}
		for _, mask := range []int{0, 15} {
			log := &Log{}
			cc, _ := NewConfig(u, log, Build{Mask: mask, Infix: true})
			e, co := SafeCompile(cc, name)
			if co.Panic != nil || co.Err != nil {
				continue // (a name infix notation reads as something else: C15's business)
			}
			f := NewFetcher(u, cc, log)
			f.Avail = avail
			o := Safe(func() (eval.Value, error) { return e.TryEval(f.Ctx()) })
			switch {
			case o.Panic != nil || o.Err != nil:
				return Violf("C05: TryEval of the one-variable program %q (infix notation, config %s, available=%v) fails: %v", name, maskName(mask), avail[name], o)
			case !avail[name] && o.Val != eval.DNE:
				return Violf("C05: TryEval of the one-variable program %q (infix notation, config %s) whose variable is unavailable returns %v, not DNE", name, maskName(mask), o)
			case avail[name] && !m.EqualVal(o.Val, u.Bound()[name]):
				return Violf("C05: TryEval of the one-variable program %q (infix notation, config %s) returns %v, the variable is bound to %v", name, maskName(mask), o, u.Bound()[name])
			}
			if _, err := Safe2Bool(e, f); !avail[name] && err != eval.ErrDNE && u.Var(name).Ty == m.TBool {
				return Violf("C05: TryEvalBool of the one-variable program %q (infix notation, config %s) whose variable is unavailable returns %v, not ErrDNE", name, maskName(mask), err)
			}
			r.Class("one-variable-infix-program")
		}
	}
	for mask := 0; mask < 16; mask++ {
		log := &Log{}
		cc, _ := NewConfig(u, log, Build{Mask: mask})
		e, co := SafeCompile(cc, src)
		if co.Panic != nil || co.Err != nil {
			return Violf("C05: compile failed\nsrc=%s\n%v", src, co)
		}
		f := NewFetcher(u, cc, log)
		f.Avail = avail
		// in a quarter of the cases "unavailable" is said the other way: the variable is cached and its value is the DNE marker
		f.DNEAsValue = hash64(src)%4 == 0
		ctxSeq := f.Ctx()
		o := Safe(func() (eval.Value, error) { return e.TryEval(ctxSeq) })
		if o.Panic != nil {
			return Violf("C05: TryEval panics\n%s\n%v", describe(mask, e), o)
		}
		if len(log.KeyErrs) != 0 {
			return Violf("C05: TryEval asks the fetcher under a wrong key (a registered variable goes by its key, an unregistered one by the UndefinedVarKey sentinel and its name): %v\n%s", log.KeyErrs, describe(mask, e))
		}
		if o.Err != nil {
			return Violf("C05: TryEval returns an error although no sub-expression fails\n%s\n%v", describe(mask, e), o)
		}
		if !m.IsDNE(k) {
			if !m.EqualVal(o.Val, k) {
				return Violf("C05: three-valued evaluation is definite but TryEval does not return its value\n%s\nTryEval=%v\nKleene=%s", describe(mask, e), o, refString(k, nil))
			}
		} else if o.Val != eval.DNE {
			// more informative than Kleene is allowed; C04 checks such answers for soundness
			r.Class("more-informative-than-kleene")
		}
		// a context.Context that is already cancelled / past its deadline in Ctx.Ctx: availability is what the
		// fetcher says, not what the request's context says - TryEval answers as it does without one
		if mask%4 == int(hash64(src)%4) {
			fd := NewFetcher(u, cc, &Log{})
			fd.Avail, fd.DNEAsValue = avail, f.DNEAsValue
			ctxD := fd.Ctx()
			ctxD.Ctx = doneContext(1 + mask%2)
			od := Safe(func() (eval.Value, error) { return e.TryEval(ctxD) })
			if !SameOutcome(od, o) {
				return Violf("C05: with an already cancelled / expired context.Context in Ctx.Ctx TryEval answers differently\n%s\nwithout=%v\nwith a done context=%v", describe(mask, e), o, od)
			}
		}
		// the same Ctx again after every variable has become available (as after Set): the
		// answer is now the full value, nothing may be remembered from the first attempt
		if nUnavail > 0 {
			f.Avail = nil
			o2 := Safe(func() (eval.Value, error) { return e.TryEval(ctxSeq) })
			if o2.Panic != nil || o2.Err != nil || !m.EqualVal(o2.Val, full) {
				return Violf("C05: TryEval on the same Ctx after all variables became available does not return the value of the expression\n%s\nfirst attempt=%v\nsecond attempt=%v\nvalue=%s", describe(mask, e), o, o2, refString(full, nil))
			}
			f.Avail = avail
		}
		// TryEvalBool mirrors TryEval
		f2 := NewFetcher(u, cc, log)
		f2.Avail = avail
		f2.DNEAsValue = f.DNEAsValue
		var bres bool
		ob := Safe(func() (eval.Value, error) { b, err := e.TryEvalBool(f2.Ctx()); bres = b; return b, err })
		switch {
		case ob.Panic != nil:
			return Violf("C05: TryEvalBool panics\n%s\n%v", describe(mask, e), ob)
		case o.Val == eval.DNE:
			if !errors.Is(ob.Err, eval.ErrDNE) {
				return Violf("C05: TryEval is undecided but TryEvalBool does not report ErrDNE\n%s\nTryEvalBool=%v", describe(mask, e), ob)
			}
		default:
			if b, isBool := o.Val.(bool); isBool {
				if ob.Err != nil || bres != b {
					return Violf("C05: TryEvalBool differs from TryEval\n%s\nTryEval=%v TryEvalBool=%v", describe(mask, e), o, ob)
				}
			} else if ob.Err == nil || errors.Is(ob.Err, eval.ErrDNE) {
				return Violf("C05: TryEvalBool must reject a definite non-boolean result with a type error\n%s\nTryEval=%v TryEvalBool=%v", describe(mask, e), o, ob)
			}
		}
	}
	for _, mask := range []int{0, 15, int(hash64(src) % 16)} {
		if v := c05LibraryContexts(c, mask, k, full, r); v != nil {
			return v
		}
	}
	// every split: for a program with up to four variables ALL available/unavailable splits are tried
	// (three option subsets), each against the Kleene evaluator - the deciding operand before, after and
	// between the unavailable ones, in every arrangement the program allows
	if names := c.Tree.VarNames(); len(names) >= 1 && len(names) <= 4 {
		for _, mask := range []int{0, 15, int(hash64(src)/16) % 16} {
			log := &Log{}
			cc, _ := NewConfig(u, log, Build{Mask: mask})
			e, co := SafeCompile(cc, src)
			if co.Panic != nil || co.Err != nil {
				return Violf("C05: compile failed\nsrc=%s\n%v", src, co)
			}
			for sub := 0; sub < 1<<len(names); sub++ {
				av := map[string]bool{}
				var avl []string
				for i, n := range names {
					if sub&(1<<i) != 0 {
						av[n] = true
						avl = append(avl, n)
					}
				}
				ks := kenv.Kleene(c.Tree, av)
				f := NewFetcher(u, cc, log)
				f.Avail = av
				f.DNEAsValue = sub%3 == 1
				o := Safe(func() (eval.Value, error) { return e.TryEval(f.Ctx()) })
				if o.Panic != nil || o.Err != nil {
					return Violf("C05: TryEval fails although no sub-expression fails (every split of a small program)\n%s\navailable here=%v\n%v", describe(mask, e), avl, o)
				}
				if !m.IsDNE(ks) && !m.EqualVal(o.Val, ks) {
					return Violf("C05: three-valued evaluation is definite but TryEval does not return its value (every split of a small program)\n%s\navailable here=%v\nTryEval=%v\nKleene=%s", describe(mask, e), avl, o, refString(ks, nil))
				}
			}
		}
		r.Class(fmt.Sprintf("every-split-of-%d-variables", len(names)))
	}
	definite := !m.IsDNE(k)
	after := kenv.KleeneDecidedAfterDNE(c.Tree, avail)
	if hash64(src)%4 == 0 && nUnavail > 0 {
		r.Class("unavailable-said-by-a-DNE-value")
	}
	switch {
	case nUnavail == 0:
		r.Class("all-available")
	case definite && after:
		r.Class("definite-decided-after-unavailable")
	case definite:
		r.Class("definite-with-unavailable")
	default:
		r.Class("kleene-undecided")
	}
	if definite && nUnavail > 0 && after {
		r.NonTrivial(src+fmt.Sprint(c.Avail)+fmt.Sprint(describeU(u)), func() interface{} {
			return map[string]interface{}{"src": clip(src, 300), "available": c.Avail, "binding": describeU(u), "kleene": refString(k, nil)}
		})
	}
	return nil
}

var propC05 = Prop[C05Case]{
	ID:    "C05",
	Rule:  "typed random expression, repaired so that no sub-expression fails under the binding, x available/unavailable split of its variables (unavailable = not cached, or in a quarter of the cases cached with the DNE marker as value) x 16 optimization subsets; oracle: independent Kleene evaluator K on the source tree (definite K => TryEval returns exactly that value; otherwise DNE with nil error, TryEvalBool ErrDNE; never an error); for programs with up to four variables every available/unavailable split is tried; the same through contexts the library builds itself (NewCtxFromVars with every value supplied; a map-backed context holding the available values, completed with Ctx.Set afterwards; a slice-backed context built from the smaller config that knows the available variables only), 3 subsets each. Non-trivial = K is definite, at least one variable is unavailable, and some and/or is decided by an operand located after an unavailable one; distinct by source + split + binding",
	Gen:   genC05,
	Check: checkC05,
}

func TestC05(t *testing.T)       { Run(t, propC05) }
func TestC05Replay(t *testing.T) { Replay(t, propC05) }

// Safe2Bool: TryEvalBool under recover.
func Safe2Bool(e *eval.Expr, f *Fetcher) (b bool, err error) {
	defer func() {
		if p := recover(); p != nil {
			err = fmt.Errorf("panic: %v", p)
		}
	}()
	return e.TryEvalBool(f.Ctx())
}

// tyOfVarSafe: the type a universe variable name stands for, -1 for renamed variables.
func tyOfVarSafe(name string) (ty m.Ty) {
	defer func() {
		if recover() != nil {
			ty = -1
		}
	}()
	return tyOfVar(strings.ToLower(name))
}
