package props

import (
	"errors"
	"fmt"
	"math"
	"sort"
	"testing"

	"github.com/onheap/eval"
	"pgregory.net/rapid"

	m "verifharness/model"
)

// C04 – TryEval answers are never contradicted by fetching more variables.

type C04Case struct {
	U           Universe `json:"u"`
	Tree        *m.Node  `json:"tree"`
	Avail       []string `json:"avail"`
	Avail2      []string `json:"avail2"`      // a superset of Avail
	Unavail     []string `json:"unavail"`     // referenced variables not in Avail, sorted
	Completions [][]m.V  `json:"completions"` // values for Unavail, one row per completion
	Masks       []int    `json:"masks"`
	Raw         bool     `json:"raw,omitempty"` // the fetcher hands some integers over as Go int (un-normalised)
	Src         string   `json:"src"`
}

func intDomain(tree *m.Node, bound interface{}) []interface{} {
	seen := map[int64]bool{}
	var out []interface{}
	add := func(v int64) {
		if !seen[v] {
			seen[v] = true
			out = append(out, v)
		}
	}
	for _, v := range []int64{0, 1, -1} {
		add(v)
	}
	if b, ok := bound.(int64); ok {
		add(b)
	}
	add(math.MinInt64)
	// the literals of the tree and their neighbours hit every comparison outcome
	var lits []int64
	tree.Walk(func(x *m.Node) {
		if v, ok := x.Val.(int64); ok && x.Kind == m.KConst {
			lits = append(lits, v)
		}
	})
	sort.Slice(lits, func(i, j int) bool { return lits[i] < lits[j] })
	for _, l := range lits {
		if len(out) >= 9 {
			break
		}
		add(l)
		add(l + 1)
		add(l - 1)
	}
	return out
}

func domainFor(tree *m.Node, v *VarDecl) []interface{} {
	switch v.Ty {
	case m.TBool:
		return []interface{}{false, true}
	case m.TInt:
		return intDomain(tree, v.Val.X)
	case m.TStr:
		out := []interface{}{"", "a"}
		if s, ok := v.Val.X.(string); ok && s != "" && s != "a" {
			out = append(out, s)
		} else {
			out = append(out, "1.2.3")
		}
		return out
	case m.TIntList:
		out := []interface{}{[]int64{}, []int64{1}}
		if l, ok := v.Val.X.([]int64); ok && len(l) > 0 {
			out = append(out, l)
		} else {
			out = append(out, []int64{0, 2, 3})
		}
		return out
	default:
		out := []interface{}{[]string{}, []string{"a"}}
		if l, ok := v.Val.X.([]string); ok && len(l) > 0 {
			out = append(out, l)
		} else {
			out = append(out, []string{"b", "ab"})
		}
		return out
	}
}

func genCompletions(t *rapid.T, tree *m.Node, u *Universe, unavail []string) [][]m.V {
	if len(unavail) == 0 {
		return nil
	}
	doms := make([][]interface{}, len(unavail))
	total := 1
	for i, n := range unavail {
		doms[i] = domainFor(tree, u.Var(n))
		if total <= 64 {
			total *= len(doms[i])
		}
	}
	var out [][]m.V
	if total <= 64 {
		idx := make([]int, len(unavail))
		for {
			row := make([]m.V, len(unavail))
			for i := range unavail {
				row[i] = m.V{X: doms[i][idx[i]]}
			}
			out = append(out, row)
			k := 0
			for k < len(idx) {
				idx[k]++
				if idx[k] < len(doms[k]) {
					break
				}
				idx[k] = 0
				k++
			}
			if k == len(idx) {
				return out
			}
		}
	}
	for c := 0; c < 64; c++ {
		row := make([]m.V, len(unavail))
		for i := range unavail {
			row[i] = m.V{X: doms[i][rapid.IntRange(0, len(doms[i])-1).Draw(t, "compl")]}
		}
		out = append(out, row)
	}
	return out
}

func genC04(t *rapid.T) C04Case {
	g := &G{t: t, GenCfg: GenCfg{
		Depth:    rapid.IntRange(2, depthMax(6, 8)).Draw(t, "depth"),
		MaxArity: rapid.IntRange(2, arityMax(5, 8)).Draw(t, "maxarity"),
		Failing:  rapid.Bool().Draw(t, "failing"),
		BadVars:  rapid.Bool().Draw(t, "badvars"),
		Custom:   true, Consts: true, Aliases: true, BoolW: 8, VarW: 14,
	}}
	var tree *m.Node
	var wish map[string]bool
	if rapid.IntRange(0, 7).Draw(t, "chain") == 0 {
		tree, wish = decisionChain(t)
	} else {
		tree = wrapRoot(g.Program(rootTy(t)))
	}
	fixEmptyLists(tree)
	u := UniverseFor(t, tree, false)
	applyWishes(u, wish)
	caseTwins(t, tree, u)
	// a variable that is not bound is not available (the fetcher reports availability truthfully)
	var unboundNames []string
	for _, v := range u.Vars {
		if v.Mode == 2 {
			unboundNames = append(unboundNames, v.Name)
		}
	}
	c := C04Case{U: *u, Tree: tree, Src: m.Render(tree), Raw: rapid.IntRange(0, 5).Draw(t, "raw") == 0}
	c.Avail = genTrySplit(t, tree, unboundNames)
	av := availSet(c.Avail)
	for _, n := range tree.VarNames() {
		if !av[n] {
			c.Unavail = append(c.Unavail, n)
		}
	}
	// a larger availability set: some of the unavailable (but bound) variables become available
	c.Avail2 = append([]string{}, c.Avail...)
	for _, n := range c.Unavail {
		if u.Var(n).Mode != 2 && rapid.Bool().Draw(t, "more_"+n) {
			c.Avail2 = append(c.Avail2, n)
		}
	}
	c.Completions = genCompletions(t, tree, u, c.Unavail)
	if Thorough() {
		for mask := 0; mask < 16; mask++ {
			c.Masks = append(c.Masks, mask)
		}
	} else {
		c.Masks = rapid.SliceOfNDistinct(rapid.IntRange(0, 15), 4, 4, rapid.ID[int]).Draw(t, "masks")
		sort.Ints(c.Masks)
	}
	return c
}

func checkC04(c C04Case, r *Rec) *Violation {
	u := &c.U
	src := m.Render(c.Tree)
	avail, avail2 := availSet(c.Avail), availSet(c.Avail2)
	definiteSomewhere, completionsRun := false, 0
	for _, mask := range c.Masks {
		log := &Log{}
		cc, _ := NewConfig(u, log, Build{Mask: mask})
		e, co := SafeCompile(cc, src)
		if co.Panic != nil || co.Err != nil {
			return Violf("C04: compile failed\nsrc=%s\n%v", src, co)
		}
		describe := func() string {
			return fmt.Sprintf("config=%s\nsrc=%s\ndump=%s\navailable=%v\nbinding=%v", maskName(mask), src, eval.Dump(e), c.Avail, describeU(u))
		}
		// one context for the whole sequence of this configuration: availability grows on the
		// same Ctx (as after VariableFetcher.Set), it is not a fresh Ctx every time
		seqF := NewFetcher(u, cc, log)
		seqF.Raw = c.Raw
		seqF.DNEAsValue = hash64(src)%4 == 1 // unavailable said by a DNE value instead of Cached=false
		seqCtx := seqF.Ctx()
		try := func(av map[string]bool) Outcome {
			seqF.Avail = av
			return Safe(func() (eval.Value, error) { return e.TryEval(seqCtx) })
		}
		o := try(avail)
		if o.Panic != nil {
			return Violf("C04: TryEval panics\n%s\n%v", describe(), o)
		}
		if len(log.KeyErrs) != 0 {
			return Violf("C04: TryEval asks the fetcher under a wrong key: %v\n%s", log.KeyErrs, describe())
		}
		// TryEvalBool mirrors TryEval
		{
			f := NewFetcher(u, cc, log)
			f.Avail = avail
			f.Raw = c.Raw
			var bres bool
			ob := Safe(func() (eval.Value, error) { b, err := e.TryEvalBool(f.Ctx()); bres = b; return b, err })
			switch {
			case ob.Panic != nil:
				return Violf("C04: TryEvalBool panics\n%s\n%v", describe(), ob)
			case o.Err != nil:
				if ob.Err == nil || m.ErrClass(ob.Err) != m.ErrClass(o.Err) {
					return Violf("C04: TryEvalBool does not pass on TryEval's error\n%s\nTryEval=%v TryEvalBool=%v", describe(), o, ob)
				}
			case o.Val == eval.DNE:
				if !errors.Is(ob.Err, eval.ErrDNE) {
					return Violf("C04: TryEval is undecided but TryEvalBool does not report ErrDNE\n%s\nTryEvalBool=%v", describe(), ob)
				}
			default:
				if b, isBool := o.Val.(bool); isBool && (ob.Err != nil || bres != b) {
					return Violf("C04: TryEvalBool differs from TryEval\n%s\nTryEval=%v TryEvalBool=%v", describe(), o, ob)
				}
			}
		}

		// everything available: TryEval and Eval agree
		if len(c.Unavail) == 0 {
			f := NewFetcher(u, cc, log)
			f.Raw = c.Raw
			oe := Safe(func() (eval.Value, error) { return e.Eval(f.Ctx()) })
			if !SameOutcomeLoose(o, oe) {
				return Violf("C04: all variables are available, yet TryEval and Eval disagree\n%s\nTryEval=%v\nEval=%v", describe(), o, oe)
			}
		}

		// the library's own contexts. Every value supplied: TryEval and Eval agree on it, whatever
		// fetcher the layout selects. A layout that selects the map-backed fetcher (undefined-variable
		// mode, or a key outside 0..255) holds exactly the supplied names, i.e. it reports availability
		// truthfully: TryEval over it answers what it answers over the harness's fetcher with the same
		// availability (values only: a failing or unbound variable is simply not supplied).
		{
			supplied := map[string]interface{}{}
			allSupplied := true
			for _, vd := range u.Vars {
				if vd.Mode == 0 && avail[vd.Name] {
					supplied[vd.Name] = vd.Val.X
				} else {
					allSupplied = false
				}
			}
			mapSelected := cc.CompileOptions[eval.AllowUndefinedVariable] || len(cc.VariableKeyMap) == 0
			for _, k := range cc.VariableKeyMap {
				if k < 0 || k > 255 {
					mapSelected = true
				}
			}
			// a caller's fetcher that embeds the library's map fetcher - holding stale values for the
			// unavailable variables - and overrides Cached with the truth: same answer as over the
			// harness's fetcher with that availability (only values: no failing / unbound variable available)
			clean := len(c.Completions) > 0
			for _, vd := range u.Vars {
				if vd.Mode != 0 && avail[vd.Name] {
					clean = false
				}
			}
			if clean && !c.Raw && !seqF.DNEAsValue {
				stale := map[string]interface{}{}
				for n, v := range supplied {
					stale[n] = v
				}
				for i, n := range c.Unavail {
					stale[n] = c.Completions[0][i].X
				}
				w := &freshnessFetcher{MapVarFetcher: eval.NewMapVarFetcher(stale), fresh: avail}
				ow := Safe(func() (eval.Value, error) { return e.TryEval(&eval.Ctx{VariableFetcher: w}) })
				if !SameOutcomeLoose(ow, o) {
					return Violf("C04: TryEval over a caller's fetcher that embeds the map fetcher (stale values for the unavailable variables) and overrides Cached differs from TryEval over a fetcher with the same availability\n%s\nstale=%v\nwrapper=%v\nplain=%v", describe(), stale, ow, o)
				}
				r.Class("library-context:caller-fetcher-embedding-the-map-fetcher")
			}
			if allSupplied {
				ctx, v := safeNewCtx("C04", cc, supplied)
				if v != nil {
					return v
				}
				ot := Safe(func() (eval.Value, error) { return e.TryEval(ctx) })
				oe := Safe(func() (eval.Value, error) { return e.Eval(eval.NewCtxFromVars(cc, supplied)) })
				if !SameOutcomeLoose(ot, oe) {
					return Violf("C04: every variable is supplied to NewCtxFromVars (%T), yet TryEval and Eval disagree\n%s\nkey map=%v\nTryEval=%v\nEval=%v", ctx.VariableFetcher, describe(), cc.VariableKeyMap, ot, oe)
				}
				r.Class("library-context:all-supplied")
			} else if mapSelected {
				ctx, v := safeNewCtx("C04", cc, supplied)
				if v != nil {
					return v
				}
				ot := Safe(func() (eval.Value, error) { return e.TryEval(ctx) })
				hf := &Fetcher{Vars: supplied, Avail: map[string]bool{}, Log: &Log{}}
				for n := range supplied {
					hf.Avail[n] = true
				}
				oh := Safe(func() (eval.Value, error) { return e.TryEval(hf.Ctx()) })
				if !SameOutcomeLoose(ot, oh) {
					return Violf("C04: TryEval over NewCtxFromVars(available values) (%T) differs from TryEval over a fetcher that reports exactly those variables as available\n%s\nsupplied=%v\nkey map=%v\nlibrary context=%v\ntruthful fetcher=%v", ctx.VariableFetcher, describe(), supplied, cc.VariableKeyMap, ot, oh)
				}
				r.Class("library-context:map-backed")
			}
		}

		if o.Err != nil || o.Val == eval.DNE {
			continue
		}
		definiteSomewhere = true

		// a definite answer is the answer under every completion for which Eval succeeds
		for _, row := range c.Completions {
			vars := u.Bound()
			for i, n := range c.Unavail {
				vars[n] = row[i].X
			}
			fail := u.Fail()
			for _, n := range c.Unavail {
				delete(fail, n) // the completion assigns it a value
			}
			f := &Fetcher{Vars: vars, Fail: fail, Log: log, Raw: c.Raw}
			oe := Safe(func() (eval.Value, error) { return e.Eval(f.Ctx()) })
			completionsRun++
			if oe.Panic != nil {
				return Violf("C04: Eval panics under a completion\n%s\ncompletion %v=%v\n%v", describe(), c.Unavail, row, oe)
			}
			if oe.Err == nil && !m.EqualVal(oe.Val, o.Val) {
				cv := map[string]string{}
				for i, n := range c.Unavail {
					cv[n] = renderAny(row[i].X)
				}
				return Violf("C04: TryEval gave a definite answer that fetching the unavailable variables contradicts\n%s\nTryEval=%v\ncompletion=%v\nEval=%v", describe(), o, cv, oe)
			}
		}
		// making more variables available never changes a definite answer
		if len(c.Avail2) > len(c.Avail) {
			o2 := try(avail2)
			if o2.Panic != nil || o2.Err != nil || !m.EqualVal(o2.Val, o.Val) {
				// an error under the larger set is acceptable only if Eval fails as well under the real binding
				if o2.Err != nil && o2.Panic == nil {
					r.Class("larger-availability-errors")
				} else {
					return Violf("C04: a definite TryEval answer changed when more variables became available\n%s\nTryEval(A)=%v\nlarger set=%v\nTryEval(A')=%v", describe(), o, c.Avail2, o2)
				}
			}
		}
		log.Reset()
	}
	// a nil value: one bound variable is handed over as nil by a fetcher that reports everything as
	// available. nil is not a value of a listed type and what an operator makes of it is not modelled;
	// but with everything available TryEval and Eval agree (same value, or both an error), and so do
	// TryEvalBool and EvalBool - on the program itself and on the program that just returns that variable
	if bound := boundNames(u, c.Tree); len(bound) > 0 && !c.Raw {
		nilVar := bound[int(hash64(src)%uint64(len(bound)))]
		vars := u.Bound()
		vars[nilVar] = nil
		progs := []string{"(if true " + nilVar + " " + nilVar + ")"}
		if u.Var(nilVar).Ty != m.TBool {
			// (a boolean variable holding nil is an ill-typed and/or operand - outside the domain of §2.9,
			// and the open finding C18-andor-nonbool-before-last makes Eval and TryEval differ there)
			progs = append(progs, src)
		}
		for _, psrc := range progs {
			for _, mask := range []int{0, 15} {
				cc, _ := NewConfig(u, &Log{}, Build{Mask: mask})
				e, co := SafeCompile(cc, psrc)
				if co.Panic != nil || co.Err != nil {
					continue // (a renamed variable that the prefix parser reads as something else)
				}
				mk := func() *eval.Ctx { return (&Fetcher{Vars: vars, Fail: u.Fail(), Log: &Log{}}).Ctx() }
				oe := Safe(func() (eval.Value, error) { return e.Eval(mk()) })
				ot := Safe(func() (eval.Value, error) { return e.TryEval(mk()) })
				if oe.Panic == nil && ot.Panic == nil && !SameOutcomeLoose(oe, ot) {
					return Violf("C04: every variable is available (one of them, %q, holds nil), yet TryEval and Eval disagree\nconfig=%s src=%s\nTryEval=%v\nEval=%v", nilVar, maskName(mask), psrc, ot, oe)
				}
				var be, bt bool
				obe := Safe(func() (eval.Value, error) { b, err := e.EvalBool(mk()); be = b; return b, err })
				obt := Safe(func() (eval.Value, error) { b, err := e.TryEvalBool(mk()); bt = b; return b, err })
				if obe.Panic == nil && obt.Panic == nil && ((obe.Err == nil) != (obt.Err == nil) || (obe.Err == nil && be != bt)) {
					return Violf("C04: every variable is available (one of them, %q, holds nil), yet TryEvalBool and EvalBool disagree\nconfig=%s src=%s\nTryEvalBool=%v\nEvalBool=%v", nilVar, maskName(mask), psrc, obt, obe)
				}
			}
		}
		r.Class("a-variable-holding-nil:TryEval-vs-Eval")
	}
	// every split: a program with up to three variables, all of them bound, is tried under ALL
	// available/unavailable splits (two option subsets); every definite answer is checked against Eval
	// under the full product of the per-type completion domains (at most 64 rows are built)
	if names := c.Tree.VarNames(); len(names) >= 1 && len(names) <= 3 && !c.Raw {
		allBound := true
		for _, n := range names {
			if vd := u.Var(n); vd == nil || vd.Mode != 0 {
				allBound = false
			}
		}
		for _, mask := range []int{0, 15} {
			if !allBound {
				break
			}
			log := &Log{}
			cc, _ := NewConfig(u, log, Build{Mask: mask})
			e, co := SafeCompile(cc, src)
			if co.Panic != nil || co.Err != nil {
				return Violf("C04: compile failed: %v\nsrc=%s", co, src)
			}
			for sub := 0; sub < 1<<len(names)-1; sub++ { // (the split with everything available is the main part's)
				av := map[string]bool{}
				var un []string
				for i, n := range names {
					if sub&(1<<i) != 0 {
						av[n] = true
					} else {
						un = append(un, n)
					}
				}
				f := NewFetcher(u, cc, log)
				f.Avail = av
				o := Safe(func() (eval.Value, error) { return e.TryEval(f.Ctx()) })
				if o.Panic != nil {
					return Violf("C04: TryEval panics (every split of a small program)\nconfig=%s src=%s available=%v\n%v", maskName(mask), src, av, o)
				}
				if o.Err != nil || o.Val == eval.DNE {
					continue
				}
				doms := make([][]interface{}, len(un))
				idx := make([]int, len(un))
				for i, n := range un {
					doms[i] = domainFor(c.Tree, u.Var(n))
				}
				for rows := 0; rows < 64; rows++ {
					vars := u.Bound()
					for i, n := range un {
						vars[n] = doms[i][idx[i]]
					}
					fe := &Fetcher{Vars: vars, Fail: u.Fail(), Log: &Log{}}
					oe := Safe(func() (eval.Value, error) { return e.Eval(fe.Ctx()) })
					if oe.Panic == nil && oe.Err == nil && !m.EqualVal(oe.Val, o.Val) {
						return Violf("C04: TryEval gave a definite answer that fetching the unavailable variables contradicts (every split of a small program)\nconfig=%s\nsrc=%s\navailable=%v binding=%v\nTryEval=%v\ncompletion=%v\nEval=%v", maskName(mask), src, av, describeU(u), o, vars, oe)
					}
					k := 0
					for k < len(idx) {
						idx[k]++
						if idx[k] < len(doms[k]) {
							break
						}
						idx[k] = 0
						k++
					}
					if k == len(idx) {
						break
					}
				}
			}
			r.Class(fmt.Sprintf("every-split-of-%d-variables", len(names)))
		}
	}
	switch {
	case len(c.Unavail) == 0:
		r.Class("all-available")
	case definiteSomewhere:
		r.Class("definite-with-unavailable")
	default:
		r.Class("undecided-or-error")
	}
	if len(c.Unavail) > 0 && definiteSomewhere && completionsRun >= 2 {
		r.NonTrivial(src+fmt.Sprint(c.Avail)+fmt.Sprint(describeU(u)), func() interface{} {
			return map[string]interface{}{"src": clip(src, 300), "available": c.Avail, "unavailable": c.Unavail, "completions": len(c.Completions), "binding": describeU(u)}
		})
	}
	return nil
}

// SameOutcomeLoose: equal values, or both an error (of whatever class).
func SameOutcomeLoose(a, b Outcome) bool {
	if a.Panic != nil || b.Panic != nil {
		return false
	}
	if (a.Err == nil) != (b.Err == nil) {
		return false
	}
	if a.Err != nil {
		return true
	}
	return m.EqualVal(a.Val, b.Val)
}

var propC04 = Prop[C04Case]{
	ID:    "C04",
	Rule:  "typed random expression (failing operands allowed) x optimization subsets (4 drawn in quick, all 16 in thorough) x available/unavailable split (unbound variables are never available) x completions of the unavailable variables (full product of small per-type domains incl. the tree's own literals +-1 when <= 64, else 64 drawn); oracles: a definite TryEval answer equals the engine's Eval under every completion for which Eval succeeds; with everything available TryEval and Eval agree (same value or both an error); a definite answer is unchanged under a larger availability set; TryEvalBool mirrors TryEval; programs with up to three (bound) variables are tried under every split, each definite answer against the full product of the completion domains; through the library's own contexts: with every value supplied to NewCtxFromVars TryEval and Eval agree, and over a map-backed context holding the available values TryEval answers as over a truthful fetcher with that availability. Non-trivial = at least one variable unavailable, TryEval definite, >= 2 completions evaluated; distinct by source + split + binding",
	Gen:   genC04,
	Check: checkC04,
}

func TestC04(t *testing.T)       { Run(t, propC04) }
func TestC04Replay(t *testing.T) { Replay(t, propC04) }

// boundNames: the tree's variables that the universe binds to a value, sorted.
func boundNames(u *Universe, tree *m.Node) []string {
	var out []string
	for _, n := range tree.VarNames() {
		if vd := u.Var(n); vd != nil && vd.Mode == 0 {
			out = append(out, n)
		}
	}
	return out
}
