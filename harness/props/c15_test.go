package props

import (
	"fmt"
	"strings"
	"testing"

	"github.com/onheap/eval"
	"pgregory.net/rapid"

	m "verifharness/model"
)

// C15 – infix notation means the same as the equivalent prefix expression.

type C15Case struct {
	U      Universe `json:"u"`
	Tree   *m.Node  `json:"tree"`
	Infix  string   `json:"infix"` // the infix rendering under test (redundant parentheses / spacing drawn by the generator)
	Origin string   `json:"origin,omitempty"`
	NoEval bool     `json:"no_eval,omitempty"` // sweep cases over untyped operands: trees only
}

var infixBinaryOps = []string{"*", "/", "%", "+", "-", "=", "==", "!=", "<", ">", "<=", ">=", "&", "&&", "|", "||"}

// respace inserts extra white space between the tokens of an infix rendering (never removes any).
func respace(t *rapid.T, s string) string {
	var sb strings.Builder
	inStr := false
	for _, r := range s {
		if r == '"' {
			inStr = !inStr
		}
		if r == ' ' && !inStr {
			// (any white space separates tokens: the plain blank most of the time, otherwise any of the forms C14 uses)
			if rapid.IntRange(0, 2).Draw(t, "space_kind") == 0 {
				sb.WriteString(rapid.SampledFrom(layoutSpaces).Draw(t, "space_uni"))
			} else {
				sb.WriteString(rapid.SampledFrom([]string{" ", " ", " ", "  ", "\n", "\t", " \n ", "\v", "\f", "\r\n"}).Draw(t, "space"))
			}
			continue
		}
		sb.WriteRune(r)
		if !inStr && (r == '(' || r == ',' || r == '[') && rapid.IntRange(0, 5).Draw(t, "pad") == 0 {
			sb.WriteString(" ")
		}
	}
	return sb.String()
}

func genC15(t *rapid.T) C15Case {
	g := &G{t: t, GenCfg: GenCfg{
		Depth:    rapid.IntRange(1, depthMax(6, 8)).Draw(t, "depth"),
		MaxArity: rapid.SampledFrom([]int{2, 2, 2, 3, 5}).Draw(t, "maxarity"),
		Failing:  rapid.IntRange(0, 3).Draw(t, "failing") == 0,
		Custom:   true, Consts: true, Aliases: true, // no stateful operator: the optimized program may call it less often
	}}
	ty := m.TBool
	if rapid.IntRange(0, 3).Draw(t, "introot") == 0 {
		ty = m.TInt
	}
	tree := g.Program(ty)
	if tree.IsLeaf() && rapid.IntRange(0, 3).Draw(t, "keepleaf") != 0 {
		g.Depth++
		tree = g.Program(ty)
	}
	fixEmptyLists(tree)
	// now and then a string literal that is a piece of infix punctuation, as a call argument, an if
	// operand, a comparison operand and a list element
	if rapid.IntRange(0, 5).Draw(t, "punct") == 0 {
		pz := rapid.SampledFrom([]string{",", "(", ")", "[", "]", ", ", "(,", "!", "&&", "+", " ", "if(", "),("}).Draw(t, "punct_s")
		sv := m.Var(g.varName(m.TStr))
		var cond *m.Node
		switch rapid.IntRange(0, 4).Draw(t, "punct_form") {
		case 0:
			cond = m.Op("eq", sv, m.Const(pz))
		case 1:
			cond = m.Op("eq", m.Const(pz), sv, sv.Clone())
		case 2:
			cond = m.Op("in", sv, m.Const([]string{pz, "x", pz}))
		case 3:
			cond = m.Op("==", m.Op("c_cat", m.Const(pz), sv), m.Const(pz))
		default:
			cond = m.Op("!=", m.If(m.Op("==", sv, m.Const(pz)), m.Const(pz), sv.Clone()), m.Const(pz))
		}
		if ty == m.TBool {
			tree = m.Op(rapid.SampledFrom([]string{"&&", "||", "and"}).Draw(t, "punct_join"), cond, tree)
		} else {
			tree = m.If(cond, tree, m.Const(int64(7)))
		}
	}
	normSymbolic(tree)
	u := UniverseFor(t, tree, false)
	u.Stateless = drawStateless(t)
	operatorLikeNames(t, tree, u)
	unicodeNames(t, tree, u)
	c := C15Case{U: *u, Tree: tree}
	redundant := rapid.Bool().Draw(t, "redundant")
	c.Infix = m.RenderInfix(tree, m.InfixOpts{
		Extra: func() bool { return redundant && rapid.IntRange(0, 3).Draw(t, "extra") == 0 },
		Tight: func() bool { return rapid.Bool().Draw(t, "tight") },
	})
	if rapid.Bool().Draw(t, "respace") {
		c.Infix = respace(t, c.Infix)
	}
	return c
}

func adjacentBinary(n *m.Node) bool {
	found := false
	n.Walk(func(x *m.Node) {
		if m.IsInfixForm(x) {
			for _, k := range x.Kids {
				if m.IsInfixForm(k) {
					found = true
				}
			}
		}
		if x.Kind == m.KOp && !m.IsInfixForm(x) || x.Kind == m.KIf {
			for _, k := range x.Kids {
				if m.IsInfixForm(k) {
					found = true
				}
			}
		}
	})
	return found
}

func checkC15(c C15Case, r *Rec) *Violation {
	u := &c.U
	// the prefix program: a bare scalar is not a prefix program, so the prefix side
	// wraps it; the comparison is then on the tree read back from the infix dump
	prefixTree := c.Tree
	bare := c.Tree.IsLeaf() && !(c.Tree.Kind == m.KConst && c.Tree.Name == "" && isList(c.Tree.Val))
	psrc := m.Render(prefixTree)

	logI := &Log{}
	ccI, _ := NewConfig(u, logI, Build{Mask: 0, Infix: true})
	// failed infix compilations first (pending operators and operands at the point of failure):
	// nothing of them may survive into the next compilation
	for _, broken := range []string{"1 + no_such_function(2)", "a b", c.Infix + " +", "(" + c.Infix, "7 * (3 + , 2"} {
		SafeCompile(ccI, broken)
	}
	eI, co := SafeCompile(ccI, c.Infix)
	where := func() string { return fmt.Sprintf("prefix=%s\ninfix =%s", psrc, c.Infix) }
	if co.Panic != nil || co.Err != nil {
		return Violf("C15: the infix rendering does not compile: %v\n%s", co, where())
	}
	dI, o := SafeStr(func() string { return eval.Dump(eI) })
	if o.Panic != nil {
		return Violf("C15: Dump of the infix program panics: %v\n%s", o, where())
	}
	// (1) the tree read back from the infix program's dump is the tree that was rendered
	back, err := m.ReadDump(dI)
	if err != nil {
		return Violf("C15: dump of the infix program unreadable: %v\n%s\ndump=%s", err, where(), dI)
	}
	if !m.EqualTree(back, c.Tree) {
		return Violf("C15: the infix text parses to a different tree\n%s\nparsed=%s", where(), m.Render(back))
	}
	if !bare {
		// (2) same Dump as the prefix compilation
		logP := &Log{}
		ccP, _ := NewConfig(u, logP, Build{Mask: 0})
		eP, cop := SafeCompile(ccP, psrc)
		if cop.Panic != nil || cop.Err != nil {
			return Violf("C15: the prefix form does not compile: %v\n%s", cop, where())
		}
		dP, _ := SafeStr(func() string { return eval.Dump(eP) })
		if dP != dI {
			return Violf("C15: infix and prefix compile to different programs\n%s\nprefix dump=\n%s\ninfix dump=\n%s", where(), dP, dI)
		}
		tP, _ := SafeStr(func() string { return eval.DumpTable(eP, false) })
		tI, _ := SafeStr(func() string { return eval.DumpTable(eI, false) })
		if tP != tI {
			return Violf("C15: infix and prefix compile to different program tables\n%s\n%s\n%s", where(), tP, tI)
		}
		// (2b) the same tree goes through the optimizer the same way: under an optimization subset the two
		// notations still give one program (all on, folding only, and one subset rotating with the case)
		for _, mask := range []int{15, MaskFold, int(hash64(c.Infix) % 16)} {
			ccPo, _ := NewConfig(u, &Log{}, Build{Mask: mask, Pure: true})
			ccIo, _ := NewConfig(u, &Log{}, Build{Mask: mask, Infix: true, Pure: true})
			ePo, c1 := SafeCompile(ccPo, psrc)
			eIo, c2 := SafeCompile(ccIo, c.Infix)
			if c1.Panic != nil || c2.Panic != nil || (c1.Err == nil) != (c2.Err == nil) {
				return Violf("C15: under %s the two notations do not compile alike: prefix %v, infix %v\n%s", maskName(mask), c1, c2, where())
			}
			if c1.Err != nil {
				continue
			}
			dPo, _ := SafeStr(func() string { return eval.Dump(ePo) })
			dIo, _ := SafeStr(func() string { return eval.Dump(eIo) })
			tPo, _ := SafeStr(func() string { return eval.DumpTable(ePo, false) })
			tIo, _ := SafeStr(func() string { return eval.DumpTable(eIo, false) })
			if dPo != dIo || tPo != tIo {
				return Violf("C15: under %s (stateless=%v) infix and prefix compile to different programs\n%s\nprefix dump=\n%s\ninfix dump=\n%s\n%s\n%s", maskName(mask), u.Stateless, where(), dPo, dIo, tPo, tIo)
			}
		}
		// (3) same outcomes
		if !c.NoEval {
			callsP, callsI := logP.Calls(), logI.Calls()
			_ = callsP
			_ = callsI
			fP, fI := NewFetcher(u, ccP, logP), NewFetcher(u, ccI, logI)
			oP := Safe(func() (eval.Value, error) { return eP.Eval(fP.Ctx()) })
			oI := Safe(func() (eval.Value, error) { return eI.Eval(fI.Ctx()) })
			if !SameOutcome(oP, oI) {
				return Violf("C15: infix and prefix programs evaluate differently\n%s\nprefix=%v\ninfix=%v\nbinding=%v", where(), oP, oI, describeU(u))
			}
			// every optimization subset of the infix program agrees with the reference (all-on only, cheap)
			logA := &Log{}
			ccA, _ := NewConfig(u, logA, Build{Mask: 7, Infix: true})
			if eA, coA := SafeCompile(ccA, c.Infix); coA.Err == nil && coA.Panic == nil {
				ref := &m.Env{Vars: u.Bound(), Fail: u.Fail(), Custom: customModel()}
				rv, rerr := ref.Eval(c.Tree)
				fA := NewFetcher(u, ccA, logA)
				oA := Safe(func() (eval.Value, error) { return eA.Eval(fA.Ctx()) })
				if rerr == nil && !Agrees(oA, rv, rerr) { // (when left-to-right evaluation fails, optimizations may legitimately succeed)
					return Violf("C15: optimized infix program disagrees with the reference\n%s\nengine=%v\nreference=%s", where(), oA, refString(rv, rerr))
				}
			}
		}
	}
	if bare && !c.NoEval {
		// a program that is a single atom exists in infix notation only: it still has a value
		ref := &m.Env{Vars: u.Bound(), Fail: u.Fail(), Custom: customModel()}
		rv, rerr := ref.Eval(c.Tree)
		for _, mask := range []int{0, 15} {
			logB := &Log{}
			ccB, _ := NewConfig(u, logB, Build{Mask: mask, Infix: true})
			eB, coB := SafeCompile(ccB, c.Infix)
			if coB.Panic != nil || coB.Err != nil {
				return Violf("C15: a single atom does not compile in infix notation (config %s): %v\n%s", maskName(mask), coB, where())
			}
			fB := NewFetcher(u, ccB, logB)
			oB := Safe(func() (eval.Value, error) { return eB.Eval(fB.Ctx()) })
			if !Agrees(oB, rv, rerr) {
				return Violf("C15: the infix program %q (config %s) evaluates to %v, the atom denotes %s\nbinding=%v", c.Infix, maskName(mask), oB, refString(rv, rerr), describeU(u))
			}
			fT := NewFetcher(u, ccB, logB)
			oT := Safe(func() (eval.Value, error) { return eB.TryEval(fT.Ctx()) })
			if !Agrees(oT, rv, rerr) {
				return Violf("C15: TryEval of the infix program %q (config %s) gives %v, the atom denotes %s", c.Infix, maskName(mask), oT, refString(rv, rerr))
			}
		}
	}
	if bare {
		r.Class("bare-atom")
	}
	for _, v := range u.Vars {
		if m.IsBuiltin(v.Name) || v.Name == "all" || v.Name == "map" || v.Name == "any" || v.Name == "filter" || v.Name == "let" {
			r.Class("variable-named-like-an-operator-or-keyword")
			break
		}
	}
	callArg := false
	c.Tree.Walk(func(x *m.Node) {
		if (x.Kind == m.KOp && !m.IsInfixForm(x)) || x.Kind == m.KIf {
			for _, k := range x.Kids {
				if m.IsInfixForm(k) {
					callArg = true
				}
			}
		}
	})
	if callArg {
		r.Class("operator-expression-as-call-argument")
	}
	if adjacentBinary(c.Tree) {
		r.NonTrivial(c.Infix, func() interface{} {
			return map[string]interface{}{"infix": clip(c.Infix, 300), "prefix": clip(psrc, 300), "origin": c.Origin}
		})
	}
	return nil
}

func sweepC15(tier string, shard, shards int, emit func(C15Case)) {
	if shard != 0 {
		return
	}
	u := Universe{RegMode: RegUndefined}
	v := func(n string) *m.Node { return m.Var(n) }
	for _, o1 := range infixBinaryOps {
		for _, o2 := range infixBinaryOps {
			// both association shapes of  a o1 b o2 c
			left := m.Op(o2, m.Op(o1, v("a"), v("b")), v("c"))
			right := m.Op(o1, v("a"), m.Op(o2, v("b"), v("c")))
			call := m.Op("c_sum", m.Op(o1, v("a"), v("b")), m.Op(o2, v("c"), v("d")))
			iff := m.If(m.Op(o1, v("a"), v("b")), m.Op(o2, v("c"), v("d")), v("e"))
			for _, tr := range []*m.Node{left, right, call, iff} {
				emit(C15Case{U: u, Tree: tr, Infix: m.RenderInfix(tr, m.InfixOpts{}), NoEval: true, Origin: "sweep-pairs"})
			}
		}
		// unary ! against every binary operator, both nestings
		for _, tr := range []*m.Node{
			m.Op("!", m.Op(o1, v("a"), v("b"))),
			m.Op(o1, m.Op("!", v("a")), v("b")),
			m.Op(o1, v("a"), m.Op("!", v("b"))),
		} {
			emit(C15Case{U: u, Tree: tr, Infix: m.RenderInfix(tr, m.InfixOpts{}), NoEval: true, Origin: "sweep-not"})
			emit(C15Case{U: u, Tree: tr, Infix: m.RenderInfix(tr, m.InfixOpts{Tight: func() bool { return true }}), NoEval: true, Origin: "sweep-not-tight"})
		}
	}
	// redundant parentheses right after a `!`: the operand of `!` is still everything that binds tighter
	for _, o1 := range infixBinaryOps {
		for _, form := range []struct {
			text string
			a    *m.Node
		}{
			{"!(a) %s b", v("a")}, {"! ((a)) %s (b)", v("a")}, {"!(a) %s (b)", v("a")}, {"!mod(a, c) %s b", m.Op("mod", v("a"), v("c"))},
			{"!if(p, a, c) %s b", m.If(v("p"), v("a"), v("c"))}, {"! (c_sum()) %s b", m.Op("c_sum")},
		} {
			var tr *m.Node
			if m.InfixPrec(o1) > m.InfixPrec("!") {
				tr = m.Op("!", m.Op(o1, form.a, v("b")))
			} else {
				tr = m.Op(o1, m.Op("!", form.a), v("b"))
			}
			emit(C15Case{U: u, Tree: tr, Infix: fmt.Sprintf(form.text, o1), NoEval: true, Origin: "sweep-not-parenthesised-operand"})
		}
	}
	// a call, an if and a list at every depth 1..80 of right-nested additions and of redundant parentheses
	for d := 1; d <= 80; d++ {
		for _, bottom := range []*m.Node{m.Op("mod", v("b"), v("c")), m.If(v("p"), v("b"), v("c")), m.Op("c_sum"), m.Op("in", v("b"), m.Const([]int64{1, -2, 3}))} {
			tr := bottom
			for i := 0; i < d; i++ {
				tr = m.Op("+", v("a"), tr)
			}
			emit(C15Case{U: u, Tree: tr, Infix: m.RenderInfix(tr, m.InfixOpts{}), NoEval: true, Origin: "sweep-depth"})
			flat := m.Op("*", v("a"), bottom)
			emit(C15Case{U: u, Tree: flat, Infix: "a * " + strings.Repeat("(", d) + m.RenderInfix(bottom, m.InfixOpts{}) + strings.Repeat(")", d), NoEval: true, Origin: "sweep-redundant-parentheses"})
		}
	}
	// triples: a o1 b o2 c o3 d in the left-associated shape for a sample of operators
	ops := []string{"*", "+", "<", "==", "&&", "||", "-", "/"}
	for _, o1 := range ops {
		for _, o2 := range ops {
			for _, o3 := range ops {
				tr := m.Op(o3, m.Op(o2, m.Op(o1, v("a"), v("b")), v("c")), v("d"))
				emit(C15Case{U: u, Tree: tr, Infix: m.RenderInfix(tr, m.InfixOpts{}), NoEval: true, Origin: "sweep-triples"})
				tr2 := m.Op(o1, v("a"), m.Op(o2, v("b"), m.Op(o3, v("c"), v("d"))))
				emit(C15Case{U: u, Tree: tr2, Infix: m.RenderInfix(tr2, m.InfixOpts{}), NoEval: true, Origin: "sweep-triples"})
			}
		}
	}
}

var propC15 = Prop[C15Case]{
	ID:    "C15",
	Rule:  "typed random trees over the 16 symbolic binary operators, unary !, named calls with 0..5 arguments (built-in and custom), if(c,a,b), bracket lists, negative literals, rendered to infix with minimal parentheses by the stated precedence table, optionally with redundant parentheses, tight !x and extra white space; oracle: the tree read back from the infix program's Dump equals the rendered tree, Dump and DumpTable equal those of the prefix compilation (optimizations off, all on, folding only and one rotating subset; a drawn subset of the custom operators declared stateless), equal outcomes, and the optimized infix program agrees with R. Sweep: all 16x16 ordered operator pairs in both association shapes of 'a o1 b o2 c', as call arguments and as if operands; ! against every binary operator, also with a parenthesised operand / a call / an if directly after it; string literals that are punctuation (a comma, a parenthesis, a bracket ...) as call, if and comparison operands; 8^3 operator triples. Non-trivial = two infix-form operators are adjacent (precedence/associativity decides the shape) or an operator expression is a call argument; distinct by infix text",
	Gen:   genC15,
	Check: checkC15,
	Sweep: sweepC15,
}

func TestC15(t *testing.T)       { Run(t, propC15) }
func TestC15Replay(t *testing.T) { Replay(t, propC15) }
