package props

import (
	"fmt"
	"math"
	"sync"

	m "verifharness/model"
)

// A cost model for C16's cross-shape tie law.
//
// The metamorphic laws of C16 need no knowledge of the cost numbers, but one clause of the
// property does: "operands of equal estimated cost keep source order" also covers operands of
// DIFFERENT shape that happen to cost the same (a plain variable priced like a sibling call).
// A wrong tie-break there is observationally identical to a slightly different price list, so
// it cannot be seen without knowing the price list. The list below is the estimate the
// engine documents in its source (base per node kind + configured cost + children; if =
// condition + dearer branch). Because a maintainer may retune it, the model is never trusted
// blindly:
//   - calibrate() compiles pairs priced one unit apart in both directions for every node
//     kind; any pair ordered against the model switches the tie law off for the process;
//   - every compiled and/or node is checked for consistency with the model (operands the
//     model prices differently must be ordered by price); the first inconsistency switches
//     the law off as well;
//   - the law is only asserted after 300 consistent strictly-ordered pairs (the 312 calibration
//     pairs count, so a saved case replayed on its own is judged by the law as well).
// With the law off C16 still runs all its model-free laws; the evidence says which mode ran.

type costModelState struct {
	mu         sync.Mutex
	calibrated bool
	valid      bool
	why        string
	strict     int
}

var costModel costModelState

func costOf(costs map[string]float64, class, name string, def float64) float64 {
	if v, ok := costs[name]; ok {
		return v
	}
	if v, ok := costs[class]; ok {
		return v
	}
	return def
}

// modelCost prices a sub-tree of a dumped program the way the engine's estimate is documented.
func modelCost(n *m.Node, costs map[string]float64, fast bool) float64 {
	switch n.Kind {
	case m.KConst:
		return 1
	case m.KVar:
		return 5 + costOf(costs, "variable", n.Name, 7)
	case m.KIf:
		return 4 + modelCost(n.Kids[0], costs, fast) + math.Max(modelCost(n.Kids[1], costs, fast), modelCost(n.Kids[2], costs, fast))
	}
	sum := 0.0
	for _, k := range n.Kids {
		sum += modelCost(k, costs, fast)
	}
	op := costOf(costs, "operator", n.Name, 10)
	if fast && len(n.Kids) == 2 && n.Kids[0].IsLeaf() && n.Kids[1].IsLeaf() {
		return 5 + op + sum
	}
	return float64(len(n.Kids)+1) + 5 + op + sum
}

func costMap(cs []CostEntry) map[string]float64 {
	out := map[string]float64{}
	for _, c := range cs {
		out[c.Name] = c.F()
	}
	return out
}

// calibrate: for every node kind, a plain variable priced one unit below / above a sibling
// of that kind must come before / after it, whatever the source order.
func (s *costModelState) calibrate() {
	s.mu.Lock()
	defer s.mu.Unlock()
	if s.calibrated {
		return
	}
	s.calibrated, s.valid = true, true
	u := &Universe{RegMode: RegGetOrReg}
	for _, n := range []string{"x", "a", "b", "c"} {
		u.Vars = append(u.Vars, VarDecl{Name: n, Ty: m.TBool, Val: m.V{X: true}})
	}
	u.Vars = append(u.Vars, VarDecl{Name: "q", Ty: m.TInt, Val: m.V{X: int64(1)}})
	v := m.Var
	shapes := []*m.Node{
		m.Const(true), v("a"), m.Op("c_id", v("a")), m.Op("not", v("a")), m.Op("=", v("q"), m.Const(int64(1))), m.Op("=", v("q"), v("q")),
		m.Op("c_sum", v("q"), v("q"), v("q")), m.If(v("a"), v("b"), v("c")), m.If(v("a"), m.Op("c_id", v("b")), v("c")), m.If(v("a"), v("c"), m.Op("c_id", v("b"))),
		m.Op("or", v("a"), v("b")), m.Op("or", v("a"), v("b"), v("c")), m.Op("=", m.Op("+", v("q"), m.Const(int64(1)), v("q")), m.Const(int64(2))),
	}
	for _, extra := range []map[string]float64{{}, {"variable": 3, "operator": 6}, {"a": 11, "c_id": 2, "=": 0, "or": -4}} {
		for _, fast := range []bool{false, true} {
			for _, sh := range shapes {
				base := modelCost(sh, extra, fast)
				for _, d := range []float64{-1, 1} {
					for _, xFirst := range []bool{true, false} {
						costs := []CostEntry{{Name: "x", C: fstr(base + d - 5)}}
						for k, c := range extra {
							costs = append(costs, CostEntry{Name: k, C: fstr(c)})
						}
						tree := m.Op("and", sh.Clone(), v("x"))
						if xFirst {
							tree = m.Op("and", v("x"), sh.Clone())
						}
						mask := MaskReorder
						if fast {
							mask |= MaskFast
						}
						run, viol := runCfg("C16", u, m.Render(tree), Build{Mask: mask, How: HowMapAll, Costs: costs})
						if viol != nil || run.DTree.Kind != m.KOp || len(run.DTree.Kids) != 2 {
							s.valid, s.why = false, "calibration program did not compile as expected"
							return
						}
						gotXFirst := run.DTree.Kids[0].Kind == m.KVar && run.DTree.Kids[0].Name == "x"
						s.strict++ // a calibration pair is a consistent strictly-ordered pair like any other (312 of them)
						if gotXFirst != (d < 0) {
							s.valid = false
							s.why = fmt.Sprintf("calibration: %s with cost(x) = cost(sibling)%+.0f (fast=%v, costs %v) compiled to %s", m.Render(tree), d, fast, costs, m.Render(run.DTree))
							return
						}
					}
				}
			}
		}
	}
}

func (s *costModelState) usable() bool {
	s.mu.Lock()
	defer s.mu.Unlock()
	return s.valid && s.strict >= 300
}

func (s *costModelState) isValid() bool {
	s.mu.Lock()
	defer s.mu.Unlock()
	return s.valid
}

func (s *costModelState) invalidate(why string) {
	s.mu.Lock()
	defer s.mu.Unlock()
	if s.valid {
		s.valid, s.why = false, why
	}
}

func (s *costModelState) addStrict(n int) {
	s.mu.Lock()
	s.strict += n
	s.mu.Unlock()
}
