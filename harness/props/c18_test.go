package props

import (
	"fmt"
	"math"
	"strings"
	"testing"

	"github.com/onheap/eval"
	"pgregory.net/rapid"

	m "verifharness/model"
)

// C18 – scalar operators obey their algebra on the whole int64/bool domain.

type C18Case struct {
	Op     string `json:"op"`
	Args   []m.V  `json:"args"`
	AsVar  []bool `json:"as_var"` // operand passed as a variable (else as a literal when it has a literal form)
	Origin string `json:"origin,omitempty"`
}

var scalarOps = func() []string {
	var out []string
	for _, n := range m.BuiltinNames {
		switch m.Aliases[n] {
		case "add", "sub", "mul", "div", "mod", "and", "or", "xor", "not", "eq", "ne", "gt", "lt", "ge", "le", "between":
			out = append(out, n)
		}
	}
	return out
}()

var extremeInts = []int64{0, 1, -1, 2, -2, 3, 7, math.MaxInt64, math.MinInt64, math.MaxInt64 - 1, math.MinInt64 + 1, 1 << 32, -(1 << 31), 1<<31 - 1, 1 << 31, 1<<53 + 1, -(1 << 53) - 1, 1 << 24, -(1 << 15)}

var wrongValues = []interface{}{"a", "", true, int64(5), []int64{1}, []string{"a"}, nil, 2.5, map[int64]struct{}{1: {}}, 2.0, float64(3), float64(0)}

func opCategory(op string) string {
	switch m.Aliases[op] {
	case "add", "sub", "mul", "div", "mod":
		return "arith"
	case "and", "or", "xor", "not":
		return "logic"
	case "gt", "lt", "ge", "le", "between":
		return "order"
	}
	return "equal"
}

func rightType(cat string, v interface{}) bool {
	switch cat {
	case "arith", "order":
		_, ok := v.(int64)
		return ok
	case "logic":
		_, ok := v.(bool)
		return ok
	}
	switch v.(type) {
	case int64, bool, string:
		return true
	}
	return false
}

func genC18(t *rapid.T) C18Case {
	op := rapid.SampledFrom(scalarOps).Draw(t, "op")
	cat := opCategory(op)
	natural := 2
	switch m.Aliases[op] {
	case "not":
		natural = 1
	case "between":
		natural = 3
	}
	n := natural
	switch pickW(t, "count", 5, 3, 2) {
	case 1:
		n = rapid.IntRange(2, 6).Draw(t, "n")
	case 2:
		n = rapid.IntRange(0, 6).Draw(t, "n")
	}
	c := C18Case{Op: op}
	eqTy := rapid.IntRange(0, 2).Draw(t, "eqty")
	for i := 0; i < n; i++ {
		var v interface{}
		if rapid.IntRange(0, 9).Draw(t, "wrong") == 0 {
			v = rapid.SampledFrom(wrongValues).Draw(t, "wrongval")
		} else {
			switch cat {
			case "arith", "order":
				if rapid.Bool().Draw(t, "extreme") {
					v = rapid.SampledFrom(extremeInts).Draw(t, "int")
				} else {
					v = rapid.Int64Range(-4, 4).Draw(t, "int")
				}
			case "logic":
				v = rapid.Bool().Draw(t, "bool")
			default:
				switch eqTy {
				case 0:
					v = rapid.SampledFrom([]int64{0, 1, -1, math.MaxInt64, math.MinInt64}).Draw(t, "eqint")
				case 1:
					v = rapid.SampledFrom([]string{"a", "", "b"}).Draw(t, "eqstr")
				default:
					v = rapid.Bool().Draw(t, "eqbool")
				}
			}
		}
		c.Args = append(c.Args, m.V{X: v})
		c.AsVar = append(c.AsVar, rapid.Bool().Draw(t, "asvar"))
	}
	return c
}

// c18Expr renders (op a1 .. an); operands without a literal form are always variables.
func c18Expr(op string, args []m.V, asVar []bool) (string, map[string]interface{}) {
	toks, vars := c18Operands(args, asVar)
	return "(" + strings.Join(append([]string{op}, toks...), " ") + ")", vars
}

// c18Operands renders the operands (literals where they have a literal form and are not forced to be variables).
func c18Operands(args []m.V, asVar []bool) ([]string, map[string]interface{}) {
	vars := map[string]interface{}{}
	var toks []string
	var sb strings.Builder
	for i, a := range args {
		sb.Reset()
		lit := false
		switch a.X.(type) {
		case int64, bool, string:
			lit = true
		case []int64:
			lit = len(a.X.([]int64)) > 0
		case []string:
			lit = true
		}
		if lit && !(i < len(asVar) && asVar[i]) {
			sb.WriteString(m.RenderVal(a.X))
		} else {
			name := fmt.Sprintf("v%d", i)
			vars[name] = a.X
			sb.WriteString(name)
		}
		toks = append(toks, sb.String())
	}
	return toks, vars
}

type mapFetcher map[string]interface{}

func (f mapFetcher) Get(_ eval.VariableKey, s string) (eval.Value, error) {
	v, ok := f[s]
	if !ok {
		return nil, m.ErrUnbound
	}
	return v, nil
}
func (f mapFetcher) Set(eval.VariableKey, string, eval.Value) error { return nil }
func (f mapFetcher) Cached(_ eval.VariableKey, s string) bool       { _, ok := f[s]; return ok }

// evalSrc compiles src (prefix) under mask with undefined variables allowed and evaluates it.
func evalSrc(src string, vars map[string]interface{}, mask int) Outcome {
	cc := eval.NewConfig(eval.EnableUndefinedVariable)
	for i, o := range allOpts {
		cc.CompileOptions[o] = mask&(1<<i) != 0
	}
	e, co := SafeCompile(cc, src)
	if co.Panic != nil || co.Err != nil {
		if co.Err != nil {
			co.Err = fmt.Errorf("COMPILE: %w", co.Err)
		}
		return co
	}
	return Safe(func() (eval.Value, error) { return e.Eval(&eval.Ctx{VariableFetcher: mapFetcher(vars)}) })
}

// evaluationOrderArgs returns the operand values of the single-operator program in
// the order the compiled program evaluates them (Reordering may permute and/or operands).
func evaluationOrderArgs(src string, vars map[string]interface{}, mask int, args []m.V) []m.V {
	if mask&MaskReorder == 0 {
		return args
	}
	cc := eval.NewConfig(eval.EnableUndefinedVariable)
	for i, o := range allOpts {
		cc.CompileOptions[o] = mask&(1<<i) != 0
	}
	e, co := SafeCompile(cc, src)
	if co.Panic != nil || co.Err != nil {
		return args
	}
	d, err := m.ReadDump(eval.Dump(e))
	if err != nil || d.Kind != m.KOp || len(d.Kids) != len(args) {
		return args
	}
	out := make([]m.V, len(d.Kids))
	for i, k := range d.Kids {
		switch k.Kind {
		case m.KConst:
			out[i] = m.V{X: k.Val}
		case m.KVar:
			out[i] = m.V{X: vars[k.Name]}
		default:
			return args
		}
	}
	return out
}

// knownAndOrNonBool: the engine's non-fast and/or path returns the value of a
// boolean, non-absorbing last operand without type-checking earlier operands.
func knownAndOrNonBool(op string, args []m.V, o Outcome) bool {
	and, or := m.IsAnd(op), m.IsOr(op)
	if !(and || or) || len(args) < 2 || o.Err != nil || o.Panic != nil {
		return false
	}
	last, ok := args[len(args)-1].X.(bool)
	if !ok || (and && !last) || (or && last) {
		return false
	}
	nonBool := false
	for _, a := range args[:len(args)-1] {
		b, isBool := a.X.(bool)
		if !isBool {
			nonBool = true
		} else if (and && !b) || (or && b) {
			return false
		}
	}
	res, isBool := o.Val.(bool)
	return nonBool && isBool && res == last
}

func checkC18(c C18Case, r *Rec) *Violation {
	cat := opCategory(c.Op)
	wellTyped := true
	listOperand := false
	for _, a := range c.Args {
		if !rightType(cat, a.X) {
			wellTyped = false
		}
		switch a.X.(type) {
		case int64, bool, string:
		default:
			listOperand = true
		}
	}
	tree := m.Op(c.Op)
	for _, a := range c.Args {
		tree.Kids = append(tree.Kids, m.Const(a.X))
	}
	env := &m.Env{}
	want, werr := env.Eval(tree)

	src, vars := c18Expr(c.Op, c.Args, c.AsVar)
	// a call of the same operator with too few operands (none, one) nested as the first or the last
	// operand: the inner count error stands under every optimization subset (only and/or are
	// documented to be merged with a nested call of their own kind)
	if cat != "logic" && len(c.Args) >= 1 && len(c.Args) <= 4 {
		toks, nvars := c18Operands(c.Args, c.AsVar)
		for _, inner := range []string{"(" + c.Op + ")", "(" + c.Op + " " + toks[0] + ")"} {
			for _, nested := range []string{
				"(" + c.Op + " " + inner + " " + strings.Join(toks, " ") + ")",
				"(" + c.Op + " " + strings.Join(toks, " ") + " " + inner + ")",
			} {
				for _, mask := range []int{0, MaskNest, 15, MaskFold | MaskNest} {
					o := evalSrc(nested, nvars, mask)
					if o.Panic != nil {
						return Violf("C18: %s panics (config %s): %v", nested, maskName(mask), o)
					}
					if o.Err == nil {
						return Violf("C18: %s returns %v (config %s): the nested call has too few operands, which is an error", nested, o, maskName(mask))
					}
				}
			}
		}
		r.Class("nested-call-with-too-few-operands")
	}
	var first Outcome
	for k, mask := range []int{0, MaskFold, MaskFast, 15} {
		o := evalSrc(src, vars, mask)
		if o.Panic != nil {
			return Violf("C18: %s panics (config %s): %v", src, maskName(mask), o)
		}
		if o.Err != nil && strings.HasPrefix(o.Err.Error(), "COMPILE:") {
			return Violf("C18: a well-formed operator call does not compile: %s: %v", src, o.Err)
		}
		if k == 0 {
			first = o
		}
		if cat == "equal" && listOperand {
			continue // eq/ne on lists, sets, nil, floats: only totality is asserted
		}
		if mask&MaskFast != 0 && !Agrees(o, want, werr) {
			// a two-leaf operator may take both leaves before applying the operator
			fenv := &m.Env{Fast: true}
			if fw, ferr := fenv.Eval(tree); Agrees(o, fw, ferr) {
				r.Class("fast-path-takes-both-leaves")
				continue
			}
		}
		if !Agrees(o, want, werr) && o.Err != nil && werr == nil && (m.IsAnd(c.Op) || m.IsOr(c.Op)) && hasNonBool(c.Args) {
			// an and/or with an operand of the wrong type that reports an error where short-circuit evaluation
			// would have let an absorbing operand decide: "wrong operand types ... yield errors" - both are right
			r.Class("ill-typed-and-or:error-where-an-absorbing-operand-could-decide")
			continue
		}
		if !Agrees(o, want, werr) {
			if werr != nil && knownAndOrNonBool(c.Op, evaluationOrderArgs(src, vars, mask, c.Args), o) && r.KnownHit("C18", "C18-andor-nonbool-before-last") {
				continue
			}
			return Violf("C18: %s disagrees with the operator model (config %s)\nvars=%v\nengine=%v\nexpected=%s", src, maskName(mask), vars, o, refString(want, werr))
		}
	}

	// laws that do not use the model (well-typed operands only)
	if wellTyped && len(c.Args) >= 1 {
		law := func(name, src2 string, vars2 map[string]interface{}, negate bool) *Violation {
			o2 := evalSrc(src2, vars2, 0)
			a, b := first, o2
			if negate && b.Err == nil {
				if bb, ok := b.Val.(bool); ok {
					b.Val = !bb
				}
			}
			if !SameOutcome(a, b) {
				return Violf("C18: law %q broken\n%s -> %v\n%s -> %v\nvars=%v", name, src, first, src2, o2, vars)
			}
			return nil
		}
		canon := m.Aliases[c.Op]
		// every alias behaves like its named form
		if canon != c.Op {
			s2, v2 := c18Expr(canon, c.Args, c.AsVar)
			if v := law("alias = named form", s2, v2, false); v != nil {
				return v
			}
		}
		two := len(c.Args) == 2
		switch canon {
		case "ne":
			if two {
				s2, v2 := c18Expr("eq", c.Args, c.AsVar)
				if v := law("ne = not eq", s2, v2, true); v != nil {
					return v
				}
			}
		case "le":
			if two {
				s2, v2 := c18Expr("gt", c.Args, c.AsVar)
				if v := law("le = not gt", s2, v2, true); v != nil {
					return v
				}
			}
		case "ge":
			if two {
				s2, v2 := c18Expr("lt", c.Args, c.AsVar)
				if v := law("ge = not lt", s2, v2, true); v != nil {
					return v
				}
			}
		case "between":
			if len(c.Args) == 3 {
				x, lo, hi := m.RenderVal(c.Args[0].X), m.RenderVal(c.Args[1].X), m.RenderVal(c.Args[2].X)
				if v := law("between = ge and le", fmt.Sprintf("(and (ge %s %s) (le %s %s))", x, lo, x, hi), nil, false); v != nil {
					return v
				}
			}
		case "add", "sub", "mul", "div", "mod", "and", "or", "xor":
			if len(c.Args) >= 3 {
				// n-ary fold = nested binary fold
				s := m.RenderVal(c.Args[0].X)
				for _, a := range c.Args[1:] {
					s = "(" + c.Op + " " + s + " " + m.RenderVal(a.X) + ")"
				}
				if v := law("n-ary fold = nested binary fold", s, nil, false); v != nil {
					return v
				}
			}
			if canon == "sub" && two {
				if v := law("a - b = a + (-1 * b)", fmt.Sprintf("(+ %s (* -1 %s))", m.RenderVal(c.Args[0].X), m.RenderVal(c.Args[1].X)), nil, false); v != nil {
					return v
				}
			}
		case "eq":
			if len(c.Args) >= 3 {
				// n-ary eq = all operands equal to the first
				parts := []string{}
				for _, a := range c.Args[1:] {
					parts = append(parts, "(eq "+m.RenderVal(c.Args[0].X)+" "+m.RenderVal(a.X)+")")
				}
				if v := law("n-ary eq = conjunction of pairwise eq", "(and "+strings.Join(parts, " ")+")", nil, false); v != nil {
					return v
				}
			}
		}
		r.Class("laws-checked")
	}

	// evidence
	extreme, lateZero := false, false
	for i, a := range c.Args {
		if v, ok := a.X.(int64); ok {
			if v == math.MaxInt64 || v == math.MinInt64 || v == math.MaxInt64-1 || v == math.MinInt64+1 {
				extreme = true
			}
			if v == 0 && i >= 2 && (m.Aliases[c.Op] == "div" || m.Aliases[c.Op] == "mod") {
				lateZero = true
			}
		}
	}
	r.Class("category:" + cat)
	if werr != nil {
		r.Class("expected-error")
	}
	if extreme || lateZero || werr != nil {
		r.NonTrivial(src+fmt.Sprint(vars), func() interface{} {
			return map[string]interface{}{"expr": src, "vars": fmt.Sprint(vars), "expected": refString(want, werr), "origin": c.Origin}
		})
	}
	return nil
}

func sweepC18(tier string, shard, shards int, emit func(C18Case)) {
	// exhaustive: operator x operand count 0..3 (4 for a smaller pool) x pool^n, sharded by operator index
	pool := []interface{}{int64(0), int64(1), int64(-1), int64(2), int64(math.MaxInt64), int64(math.MinInt64), true, false, "a", "", []int64{1}, nil}
	if tier != "thorough" {
		pool = []interface{}{int64(0), int64(-1), int64(math.MinInt64), int64(math.MaxInt64), true, false, "a", []int64{1}}
	}
	for oi, op := range scalarOps {
		if oi%shards != shard {
			continue
		}
		// arithmetic: three operands over {MinInt64, MaxInt64, -1, 0, 1, 2}, exactly one of them a variable and
		// the others literals (a partial fold of the constant operands must not change a wrapped-around result)
		if opCategory(op) == "arith" || m.Aliases[op] == "between" {
			ip := []int64{math.MinInt64, math.MaxInt64, -1, 0, 1, 2}
			for a := range ip {
				for b := range ip {
					for cc := range ip {
						for v := 0; v < 3; v++ {
							emit(C18Case{Op: op, Origin: "sweep-one-variable", Args: []m.V{{X: ip[a]}, {X: ip[b]}, {X: ip[cc]}}, AsVar: []bool{v == 0, v == 1, v == 2}})
						}
					}
				}
			}
		}
		maxN := 3 // (quick: 8-value pool, thorough: 12-value pool)
		for n := 0; n <= maxN; n++ {
			idx := make([]int, n)
			for {
				c := C18Case{Op: op, Origin: "sweep"}
				for _, k := range idx {
					c.Args = append(c.Args, m.V{X: pool[k]})
					c.AsVar = append(c.AsVar, false)
				}
				emit(c)
				k := 0
				for k < n {
					idx[k]++
					if idx[k] < len(pool) {
						break
					}
					idx[k] = 0
					k++
				}
				if k == n {
					break
				}
			}
		}
	}
}

var propC18 = Prop[C18Case]{
	ID:    "C18",
	Rule:  "single-operator expressions (op a1..an) for every arithmetic/logic/comparison operator and alias, n = 0..6, operands from the int64 extremes / small ints / booleans / strings with a wrong-typed operand (string, bool, int, list, nil, float, set) at any position with probability 1/10 each, passed as literals and as variables, configs none/folding/fast/all. Oracles: independent operator model through R (and/or short-circuit), plus model-free laws on the engine (alias = named form, ne=!eq, le=!gt, ge=!lt, between = ge&&le, n-ary fold = nested binary fold, a-b = a+(-1*b), n-ary eq = pairwise). Sweep: exhaustive operator x count x pool^n for n<=3 (quick: 8-value pool; thorough: 12-value pool); arithmetic operators and between also over {MinInt64, MaxInt64, -1, 0, 1, 2}^3 with exactly one operand a variable. Also, for arithmetic, ordering and equality operators: the same operator called with no or one operand, nested as the first or the last operand, is an error under every subset tried (only and/or are documented to merge with nested calls of their kind). Non-trivial = an operand at an int64 extreme, a zero divisor at position >= 3, or an expected error (wrong count/type); distinct by expression + operands",
	Gen:   genC18,
	Check: checkC18,
	Sweep: sweepC18,
}

func TestC18(t *testing.T)       { Run(t, propC18) }
func TestC18Replay(t *testing.T) { Replay(t, propC18) }

func hasNonBool(args []m.V) bool {
	for _, a := range args {
		if _, ok := a.X.(bool); !ok {
			return true
		}
	}
	return false
}
