//go:build verif

package props

import (
	"fmt"
	"strings"
	"testing"
	"time"

	"github.com/onheap/eval"
	"pgregory.net/rapid"

	m "verifharness/model"
)

// C09 – capacity limits are enforced at compile time, never by overflow.

type C09Case struct {
	Kind   string `json:"kind"` // arity | flatten | nodes | stack
	Op     string `json:"op"`
	Inner  string `json:"inner,omitempty"`
	N      int    `json:"n"`                // operand count / node count / stack requirement
	Groups int    `json:"groups,omitempty"` // flatten: number of inner operators
	Shape  int    `json:"shape,omitempty"`
	Deep   int    `json:"deep,omitempty"` // stack family: what sits at the deepest stack position (0 variable, 1 zero-operand call, 2 unary call, 3 if, 4 constant, 5 two-leaf operator)
	Mask   int    `json:"mask"`
	Events int    `json:"events"`
	Reach  bool   `json:"reach"`            // binding reaches the deepest point (else short-circuits early)
	Ifs    int    `json:"ifs,omitempty"`    // nodes family: this many leaves are replaced by an if (5 nodes each, one of them the end-if marker)
	Bins   int    `json:"bins,omitempty"`   // nodes family: this many leaves are replaced by a two-leaf operator (3 nodes each, inlined under FastEvaluation)
	IfBins int    `json:"ifbins,omitempty"` // nodes family: this many leaves are replaced by an if whose condition and branches are two-leaf operators (11 nodes each, three of them inlined under FastEvaluation)
	// Consts (arity family): 0 every operand a variable, 1 every operand a constant (neutral for the
	// operator), 2 constants followed by one variable, 3 one variable followed by constants
	Consts int `json:"consts,omitempty"`
	// Infix: the program is written in infix notation (calls as name(a, b, ...)).
	Infix bool `json:"infix,omitempty"`
	// Chan: the program is compiled without events, yet the caller attaches a channel to Expr.EventChan
	// (an application that wires its channel to every expression); nothing is ever sent on it
	Chan bool `json:"chan,omitempty"`
	// Wrap: the program sits below an if: 1 as its true branch, 2 as its false branch, 3 inside its
	// condition - a limit is a limit wherever in the expression it is exceeded
	Wrap int `json:"wrap,omitempty"`
}

// neutralConst: a constant operand that neither decides nor breaks the operator.
func neutralConst(op string) *m.Node {
	switch {
	case m.IsAnd(op):
		return m.Const(true)
	case m.IsOr(op), op == "xor":
		return m.Const(false)
	}
	return m.Const(int64(1))
}

// wideConsts is wide() with constant operands in the places Consts names.
func wideConsts(op string, n, consts int) *m.Node {
	node := wide(op, n)
	for i := range node.Kids {
		if consts == 1 || (consts == 2 && i < n-1) || (consts == 3 && i > 0) {
			node.Kids[i] = neutralConst(op)
		}
	}
	return node
}

var naryOps = []string{"+", "add", "-", "sub", "*", "mul", "/", "div", "%", "mod", "and", "&", "&&", "or", "|", "||", "xor", "=", "==", "eq", "c_sum"}

func isBoolish(op string) bool { return m.IsAnd(op) || m.IsOr(op) || op == "xor" }

func leafFor(op string, i int) *m.Node {
	if isBoolish(op) {
		return m.Var(fmt.Sprintf("p%d", i%4))
	}
	return m.Var(fmt.Sprintf("q%d", i%4))
}

func wide(op string, n int) *m.Node {
	node := m.Op(op)
	for i := 0; i < n; i++ {
		node.Kids = append(node.Kids, leafFor(op, i))
	}
	return node
}

// sized builds a tree of exactly n nodes (n >= 3) from <=127-ary layers of op alternating with alt.
func sized(op, alt string, n int) *m.Node {
	if n <= 128 {
		return wide(op, n-1)
	}
	rest := n - 1
	node := m.Op(op)
	if rest/127 >= 3 { // balanced: 127 sub-trees of (almost) equal size
		base, rem := rest/127, rest%127
		for i := 0; i < 127; i++ {
			s := base
			if i < rem {
				s++
			}
			node.Kids = append(node.Kids, sized(alt, op, s))
		}
		return node
	}
	leaves := 126 // one sub-tree, then leaves
	if rest-leaves < 3 {
		leaves = rest - 3
	}
	node.Kids = append(node.Kids, sized(alt, op, rest-leaves))
	for i := 0; i < leaves; i++ {
		node.Kids = append(node.Kids, leafFor(op, i))
	}
	return node
}

// decorate replaces the first ifs+bins leaves (depth-first) by an if over leaves (+4 nodes)
// or by a two-leaf operator (+2 nodes), keeping the static type of the leaf. The caller must
// have left room: the tree needs at least ifs+bins leaves.
func decorate(tree *m.Node, ifs, bins int, ifbinsOpt ...int) {
	ifbins := 0
	if len(ifbinsOpt) > 0 {
		ifbins = ifbinsOpt[0]
	}
	var rec func(n *m.Node)
	rec = func(n *m.Node) {
		for i, k := range n.Kids {
			if ifs+bins+ifbins == 0 {
				return
			}
			if k.Kind != m.KVar {
				rec(k)
				continue
			}
			isBool := k.Name[0] == 'p'
			switch {
			case ifbins > 0 && isBool:
				n.Kids[i] = m.If(m.Op("=", m.Var("p1"), m.Var("p2")), m.Op("=", k, m.Var("p2")), m.Op("=", k.Clone(), m.Var("p3")))
				ifbins--
			case ifbins > 0:
				n.Kids[i] = m.If(m.Op("=", m.Var("p1"), m.Var("p2")), m.Op("*", k, m.Var("q1")), m.Op("*", k.Clone(), m.Var("q1")))
				ifbins--
			case ifs > 0:
				n.Kids[i] = m.If(m.Var("p1"), k, k.Clone())
				ifs--
			case isBool:
				n.Kids[i] = m.Op("=", k, m.Var("p2"))
				bins--
			default:
				n.Kids[i] = m.Op("*", k, m.Var("q1"))
				bins--
			}
		}
	}
	rec(tree)
	if ifs+bins+ifbins != 0 {
		panic("decorate: not enough leaves")
	}
}

func countNodes(n *m.Node) int {
	s := 1
	if n.Kind == m.KIf {
		s++ // the end-if node
	}
	for _, k := range n.Kids {
		s += countNodes(k)
	}
	return s
}

func countFast(n *m.Node) int {
	c := 0
	if n.Kind == m.KOp && len(n.Kids) == 2 && n.Kids[0].IsLeaf() && n.Kids[1].IsLeaf() {
		c = 1
	}
	for _, k := range n.Kids {
		c += countFast(k)
	}
	return c
}

// stackNeed: operand-stack slots a post-order evaluation of n needs.
func stackNeed(n *m.Node, fast bool) int {
	switch {
	case n.IsLeaf():
		return 1
	case n.Kind == m.KIf:
		mx := 1
		for _, k := range n.Kids {
			if x := stackNeed(k, fast); x > mx {
				mx = x
			}
		}
		return mx
	case fast && len(n.Kids) == 2 && n.Kids[0].IsLeaf() && n.Kids[1].IsLeaf():
		return 1
	}
	mx := 1
	for i, k := range n.Kids {
		if x := i + stackNeed(k, fast); x > mx {
			mx = x
		}
	}
	return mx
}

// programStackNeed computes the operand-stack slots a post-order evaluation needs
// from the compiled program's own shape (read-only hook): children of a node are
// the nodes naming it as parent, in program order; event nodes are ignored.
func programStackNeed(nodes []eval.VerifNode, parents []int16) int {
	const (
		tConst, tVar, tOp, tFast, tCond, tEvent = 1, 2, 3, 4, 5, 7
	)
	kids := make([][]int, len(nodes))
	root := -1
	for i, p := range parents {
		if int(nodes[i].Flag&7) == tEvent {
			continue
		}
		if p == -1 {
			root = i
			continue
		}
		kids[p] = append(kids[p], i)
	}
	memo := make([]int, len(nodes))
	var need func(i int) int
	need = func(i int) int {
		if memo[i] != 0 {
			return memo[i]
		}
		r := 1
		switch int(nodes[i].Flag & 7) {
		case tOp:
			for j, k := range kids[i] {
				if x := j + need(k); x > r {
					r = x
				}
			}
		case tCond:
			for _, k := range kids[i] {
				if int(nodes[k].Flag&7) == tCond && len(kids[k]) == 0 {
					continue // the end-if marker
				}
				if x := need(k); x > r {
					r = x
				}
			}
		}
		memo[i] = r
		return r
	}
	if root < 0 {
		return 1
	}
	return need(root)
}

// stackShape builds a program whose evaluation needs exactly `need` stack slots (without FastEvaluation).
func stackShape(shape, need int) *m.Node {
	q := func(i int) *m.Node { return m.Var(fmt.Sprintf("q%d", i%4)) }
	p := func(i int) *m.Node { return m.Var(fmt.Sprintf("p%d", i%4)) }
	switch shape % 7 {
	case 6: // one n-ary call over texts that coincide with the engine's internal end-if word
		fi := func(i int) *m.Node {
			if i%2 == 0 {
				return m.Const("fi")
			}
			return m.Var("fi")
		}
		k := need
		if k < 3 {
			k = 3 // (a two-leaf call would be inlined under FastEvaluation)
		}
		n := m.Op("=")
		for i := 0; i < k; i++ {
			n.Kids = append(n.Kids, fi(i))
		}
		return n
	case 0: // right-nested arithmetic: (+ q (+ q (+ q ... (+ q q q))))
		n := m.Op("+", q(0), q(1), q(2))
		for d := 3; d < need; d++ {
			n = m.Op([]string{"+", "-", "*"}[d%3], q(d), n)
		}
		if need < 3 {
			return m.Op("+", q(0), q(1))
		}
		return n
	case 1: // right-nested and/or alternating
		n := m.Op("and", p(0), p(1), p(2))
		for d := 3; d < need; d++ {
			n = m.Op([]string{"or", "and"}[d%2], p(d), n)
		}
		if need < 3 {
			return m.Op("and", p(0), p(1))
		}
		return n
	case 2: // wide first, deep last: (c_sum q q q ... (+ q q q)) needs operands + inner
		if need < 4 {
			return m.Op("c_sum", q(0), q(1))
		}
		n := m.Op("c_sum")
		for i := 0; i < need-3; i++ {
			n.Kids = append(n.Kids, q(i))
		}
		n.Kids = append(n.Kids, m.Op("+", q(0), q(1), q(2)))
		return n
	case 3: // if chains inside operands
		n := m.Op("+", q(0), q(1), q(2))
		for d := 3; d < need; d++ {
			if d%2 == 0 {
				n = m.Op("+", q(d), m.If(p(d), n, q(d+1)))
			} else {
				n = m.Op("*", q(d), m.If(p(d), q(d+1), n))
			}
		}
		if need < 3 {
			return m.If(p(0), q(0), q(1))
		}
		return n
	case 4: // comparisons over nested arithmetic under and
		n := m.Op("+", q(0), q(1), q(2))
		for d := 3; d < need-1; d++ {
			n = m.Op("+", q(d), n)
		}
		if need < 4 {
			return m.Op("and", p(0), m.Op(">", q(0), q(1)))
		}
		return m.Op("and", p(0), m.Op(">", q(1), n))
	default: // operator in first position deep, then many siblings
		n := m.Op("+", q(0), q(1), q(2))
		for d := 3; d < need; d++ {
			n = m.Op("-", q(d), n)
		}
		if need < 3 {
			return m.Op("-", q(0), q(1))
		}
		return m.Op("+", n, q(0), q(1))
	}
}

func (c C09Case) tree() *m.Node {
	t := c.baseTree()
	switch c.Wrap {
	case 1:
		return m.If(m.Var("p0"), t, m.Var("q0"))
	case 2:
		return m.If(m.Var("p0"), m.Var("q0"), t)
	case 3:
		return m.If(m.Op("eq", t, m.Var("q0")), m.Var("q1"), m.Var("q2"))
	}
	return t
}

func (c C09Case) baseTree() *m.Node {
	switch c.Kind {
	case "argwide":
		// a wide call that is the LAST argument of another call (operands of the enclosing call are
		// pending while it is parsed), 1..3 levels: outer(q, ..., inner(<N operands>))
		inner := wide(c.Op, c.N)
		for lvl := 0; lvl < 1+c.Groups%3; lvl++ {
			outer := "sub"
			if isBoolish(c.Op) {
				outer = "xor"
			}
			node := m.Op(outer)
			for k := 0; k < 1+c.Shape%40; k++ {
				node.Kids = append(node.Kids, leafFor(c.Op, k))
			}
			node.Kids = append(node.Kids, inner)
			inner = node
		}
		return inner
	case "biglist":
		// a three-node program whose list literal has N elements
		l := make([]int64, c.N)
		for k := range l {
			l[k] = int64(k)
		}
		return m.Op("in", m.Var("q1"), m.Const(l))
	case "arity":
		if c.Consts != 0 {
			return wideConsts(c.Op, c.N, c.Consts)
		}
		return wide(c.Op, c.N)
	case "flatten":
		n := m.Op(c.Op)
		per := c.N / c.Groups
		left := c.N
		for g := 0; g < c.Groups; g++ {
			sz := per
			if g == c.Groups-1 {
				sz = left
			}
			left -= sz
			if sz < 2 {
				n.Kids = append(n.Kids, leafFor(c.Op, g))
			} else {
				n.Kids = append(n.Kids, wide(c.Inner, sz))
			}
		}
		return n
	case "nodes":
		base := c.N - 4*c.Ifs - 2*c.Bins - 10*c.IfBins
		if base < 3 {
			return sized(c.Op, c.Inner, c.N)
		}
		tree := sized(c.Op, c.Inner, base)
		leaves := 0
		tree.Walk(func(x *m.Node) {
			if x.Kind == m.KVar {
				leaves++
			}
		})
		if leaves < c.Ifs+c.Bins+c.IfBins { // (more decorations drawn than the remaining program has leaves: the plain program of that size)
			return sized(c.Op, c.Inner, c.N)
		}
		decorate(tree, c.Ifs, c.Bins, c.IfBins)
		return tree
	case "deep":
		// right-nested three-operand calls: every level keeps two values waiting, so the
		// requirement is 3 + 2k for k+1 levels (4 + 3k nodes): N is the requirement
		k := (c.N - 3) / 2
		tree := m.Op("+", leafFor("+", 0), leafFor("+", 1), leafFor("+", 2))
		for i := 0; i < k; i++ {
			tree = m.Op([]string{"+", "c_sum", "*"}[i%3], leafFor("+", i), leafFor("+", i+1), tree)
		}
		return tree
	default:
		tree := stackShape(c.Shape, c.N)
		deepen(tree, c.Deep)
		return tree
	}
}

// deepen replaces the leaf that sits at the deepest operand-stack position by another
// kind of node that also occupies exactly one slot, so the requirement stays the same
// while the node kind at the high-water mark varies.
func deepen(tree *m.Node, kind int) {
	if kind%6 == 0 {
		return
	}
	var best, bestParent *m.Node
	bestIdx, bestDepth := -1, 0
	var rec func(n *m.Node, base int)
	rec = func(n *m.Node, base int) {
		for i, k := range n.Kids {
			d := base
			if n.Kind == m.KOp {
				d = base + i
			}
			if k.IsLeaf() {
				if d+1 > bestDepth {
					best, bestParent, bestIdx, bestDepth = k, n, i, d+1
				}
			} else {
				rec(k, d)
			}
		}
	}
	rec(tree, 0)
	if best == nil {
		return
	}
	isBool := best.Kind == m.KVar && best.Name[0] == 'p'
	var repl *m.Node
	switch kind % 6 {
	case 1:
		if isBool {
			repl = m.Op("c_not", m.Op("c_not", best)) // no zero-operand boolean operator: two unary calls
		} else {
			repl = m.Op("c_sum") // zero-operand call: pushes one value without popping any
		}
	case 2:
		repl = m.Op("c_id", best)
	case 3:
		repl = m.If(m.Var("p0"), best, best.Clone())
	case 4:
		if isBool {
			repl = m.Const(true)
		} else {
			repl = m.Const(int64(1))
		}
	default:
		if isBool {
			repl = m.Op("=", best, best.Clone())
		} else {
			repl = m.Op("+", best, m.Const(int64(0)))
		}
	}
	bestParent.Kids[bestIdx] = repl
}

func (c C09Case) universe() *Universe {
	u := &Universe{RegMode: RegExplicit, KeyBase: 1}
	for i := 0; i < 4; i++ {
		b := c.Reach
		if isAndCase(c) {
			b = c.Reach // all true reaches the end of an and; false stops at once
		} else {
			b = !c.Reach
		}
		u.Vars = append(u.Vars, VarDecl{Name: fmt.Sprintf("p%d", i), Ty: m.TBool, Val: m.V{X: b}})
	}
	for i := 0; i < 4; i++ {
		u.Vars = append(u.Vars, VarDecl{Name: fmt.Sprintf("q%d", i), Ty: m.TInt, Val: m.V{X: int64(1 + i%2)}})
	}
	u.Vars = append(u.Vars, VarDecl{Name: "fi", Ty: m.TStr, Val: m.V{X: "fi"}})
	return u
}

func isAndCase(c C09Case) bool { return !m.IsOr(c.Op) }

func genC09(t *rapid.T) C09Case {
	c := C09Case{Mask: rapid.IntRange(0, 15).Draw(t, "mask"), Events: []int{0, 1, 2, 3, -1, -2, -3}[pickW(t, "events", 3, 3, 3, 1, 1, 1, 1)], Reach: rapid.Bool().Draw(t, "reach")}
	switch pickW(t, "kind", 3, 2, 1, 6, 1, 2, 1) {
	case 5:
		c.Kind, c.Op, c.N = "argwide", rapid.SampledFrom([]string{"add", "mul", "and", "or", "eq", "c_sum", "sub"}).Draw(t, "op"), rapid.IntRange(100, 130).Draw(t, "n")
		c.Groups, c.Shape = rapid.IntRange(0, 2).Draw(t, "levels"), rapid.IntRange(0, 39).Draw(t, "pending")
		c.Infix = rapid.Bool().Draw(t, "infix")
	case 6:
		c.Kind, c.N = "biglist", rapid.SampledFrom([]int{1000, 32767, 32768, 65536, 100000, 131072}).Draw(t, "listlen")
		c.Infix = rapid.Bool().Draw(t, "infix")
	case 4:
		c.Kind = "deep"
		c.N = rapid.SampledFrom([]int{255, 257, 4095, 4097, 8191, 8193, 16381, 16383, 16385, 16387, 20001, 21843, 21845}).Draw(t, "deepneed")
	case 0:
		c.Kind, c.Op, c.N = "arity", rapid.SampledFrom(naryOps).Draw(t, "op"), rapid.IntRange(120, 135).Draw(t, "n")
		if rapid.IntRange(0, 3).Draw(t, "farbeyond") == 0 {
			c.N = rapid.SampledFrom([]int{255, 256, 257, 258, 300, 383, 384, 511, 512, 513, 639, 640, 1000}).Draw(t, "nfar")
		}
		c.Consts = pickW(t, "consts", 3, 1, 1, 1)
	case 1:
		ops := []string{"and", "&", "&&", "or", "|", "||"}
		c.Kind, c.Op, c.Inner = "flatten", rapid.SampledFrom(ops).Draw(t, "op"), rapid.SampledFrom(ops).Draw(t, "inner")
		c.Groups = rapid.IntRange(2, 6).Draw(t, "groups")
		c.N = rapid.IntRange(120, 135).Draw(t, "n")
	case 2:
		c.Kind = "nodes"
		pair := rapid.SampledFrom([][2]string{{"+", "+"}, {"and", "or"}, {"or", "and"}, {"+", "*"}}).Draw(t, "ops")
		c.Op, c.Inner = pair[0], pair[1]
		base := rapid.SampledFrom([]int{16383, 16384, 32767, 8192, 10922}).Draw(t, "base")
		c.N = base + rapid.IntRange(-3, 3).Draw(t, "delta")
		switch rapid.IntRange(0, 3).Draw(t, "decor") {
		case 1:
			c.Ifs = rapid.SampledFrom([]int{1, 2, 3, 100, 1000}).Draw(t, "ifs")
		case 2:
			c.Bins = rapid.SampledFrom([]int{1, 2, 3, 100, 1000}).Draw(t, "bins")
		case 3:
			c.Ifs, c.Bins = rapid.IntRange(1, 50).Draw(t, "ifs"), rapid.IntRange(1, 50).Draw(t, "bins")
		}
		if rapid.IntRange(0, 2).Draw(t, "ifbinsdecor") == 0 {
			c.IfBins = rapid.SampledFrom([]int{1, 2, 20, 300, 600}).Draw(t, "ifbins")
		}
	default:
		c.Kind, c.Shape, c.N = "stack", rapid.IntRange(0, 6).Draw(t, "shape"), rapid.IntRange(1, 24).Draw(t, "need")
		c.Deep = rapid.IntRange(0, 5).Draw(t, "deep")
	}
	c.Chan = c.Events == 0 && rapid.IntRange(0, 2).Draw(t, "chan") == 0
	if c.Kind != "biglist" && c.Kind != "deep" {
		c.Wrap = pickW(t, "wrap", 6, 1, 1, 1)
	}
	return c
}

func checkC09(c C09Case, r *Rec) *Violation {
	tree := c.tree()
	u := c.universe()
	src := m.Render(tree)
	if c.Infix {
		src = m.RenderInfix(tree, m.InfixOpts{})
	}
	opt := tree
	if c.Mask&MaskNest != 0 {
		opt = flattenModel(tree)
	}
	size := countNodes(opt)
	total := size
	fast := 0
	if c.Mask&MaskFast != 0 {
		fast = countFast(opt)
	}
	if c.Events > 0 {
		total = 2*size - 2*fast
	}
	ops := maxOperands(opt)
	mustReject := ops > 127 || size > 32767 || total > 32767
	// every operand a constant and ConstantFolding on: the call may be folded to one constant before
	// the limits are looked at, or be rejected for its width - the property allows both
	foldsAway := c.Kind == "arity" && c.Consts == 1 && c.Mask&MaskFold != 0 && m.IsBuiltin(c.Op)
	where := func() string {
		return fmt.Sprintf("case=%+v\nprogram: %d nodes after optimization (%d incl. event nodes), widest operator %d operands\nsrc=%s", c, size, total, ops, clip(src, 300))
	}

	log := &Log{}
	cc, _ := NewConfig(u, log, Build{Mask: c.Mask, Events: c.Events, Infix: c.Infix})
	e, co := SafeCompile(cc, src)
	if co.Panic != nil {
		return Violf("C09: Compile panics instead of enforcing a limit: %v\n%s", co, where())
	}
	if (e == nil) == (co.Err == nil) {
		return Violf("C09: Compile returned neither/both of program and error\n%s", where())
	}
	near := false
	for _, b := range []int{127, 16383, 32767} {
		for _, x := range []int{ops, size, total} {
			if x >= b-2 && x <= b+2 {
				near = true
			}
		}
	}
	if c.Kind == "deep" {
		for _, b := range []int{16384, 21845} {
			if c.N >= b-3 && c.N <= b+3 {
				near = true
			}
		}
	}
	if c.Kind == "stack" {
		for _, b := range []int{8, 16} {
			if c.N >= b-2 && c.N <= b+2 {
				near = true
			}
		}
	}
	if c.Consts != 0 {
		r.Class(fmt.Sprintf("arity-with-constant-operands:%d", c.Consts))
	}
	if co.Err != nil {
		if !mustReject {
			return Violf("C09: a program within every limit is rejected: %v\n%s", co.Err, where())
		}
		r.Class("rejected")
	} else {
		nodes, parents, maxStack := eval.VerifProgram(e)
		// what was actually built: size and widest operator, read through the hook
		kidsOf := map[int16]int{}
		widestBuilt := 0
		for _, p := range parents {
			if p >= 0 {
				kidsOf[p]++
				if kidsOf[p] > widestBuilt {
					widestBuilt = kidsOf[p]
				}
			}
		}
		if mustReject && !foldsAway {
			// the documented optimizer leaves this program beyond a limit, yet it compiled. That is
			// acceptable only if what was built is within the limits after all (an optimizer that
			// shrinks more than the model knows); the value is checked below like any other
			if len(nodes) > 32767 || widestBuilt > 127 || len(nodes) >= total {
				return Violf("C09: a program beyond a limit compiles (operands %d > 127, nodes %d or %d incl. event nodes > 32767; built: %d nodes, widest operator %d)\n%s", ops, size, total, len(nodes), widestBuilt, where())
			}
			r.Class("compiled-smaller-than-the-size-model-predicts")
		}
		if len(nodes) > 32767 || widestBuilt > 127 {
			return Violf("C09: the compiled program is beyond a limit itself: %d nodes, widest operator %d operands\n%s", len(nodes), widestBuilt, where())
		}
		r.Class("compiled")
		if c.Chan {
			e.EventChan = make(chan eval.Event, 64)
			r.Class("channel-attached-to-a-program-without-events")
		}
		modelAgrees := len(nodes) == total
		if !modelAgrees && !foldsAway {
			// the size model of this check (documented ReduceNesting, end-if markers, event nodes) does not
			// describe what was built: no verdict is derived from it below; recorded for the evidence
			r.Class("size-model-disagrees-with-the-compiled-program")
		}
		need := programStackNeed(nodes, parents)
		if c.Mask&MaskReorder == 0 && !foldsAway && modelAgrees {
			if n2 := stackNeed(opt, c.Mask&MaskFast != 0); n2 != need {
				return Violf("C09: the compiled program's shape needs %d stack slots, the source shape %d (Reordering is off, they must agree)\n%s", need, n2, where())
			}
		}
		if int(maxStack) < need {
			return Violf("C09: the operand stack bound %d is smaller than the %d slots the program needs\n%s", maxStack, need, where())
		}
		ref := &m.Env{Vars: u.Bound(), Custom: customModel()}
		rv, rerr := ref.Eval(tree)
		for _, try := range []bool{false, true} {
			log.Reset()
			f := NewFetcher(u, cc, log)
			var o Outcome
			run := func() {
				o = Safe(func() (eval.Value, error) {
					if try {
						return e.TryEval(f.Ctx())
					}
					return e.Eval(f.Ctx())
				})
			}
			if c.Events > 0 {
				evs := collectEvents(e, run)
				if ok, why := loopPositionsIncrease(evs); !ok && o.Panic == nil {
					return Violf("C09: %s\n%s", why, where())
				}
			} else {
				run()
			}
			if !Agrees(o, rv, rerr) {
				name := "Eval"
				if try {
					name = "TryEval"
				}
				return Violf("C09: %s of a program within the limits returns %v, the reference value is %s\n%s", name, o, refString(rv, rerr), where())
			}
		}
		if size < 4000 {
			if _, o := SafeStr(func() string { return eval.Dump(e) }); o.Panic != nil {
				return Violf("C09: Dump panics: %v\n%s", o, where())
			}
		}
		r.Class(fmt.Sprintf("stack-class:%s", map[bool]string{true: "<=8", false: map[bool]string{true: "<=16", false: ">16"}[maxStack <= 16]}[maxStack <= 8]))
	}
	r.Class("kind:" + c.Kind)
	if near {
		r.NonTrivial(fmt.Sprintf("%+v", c), func() interface{} {
			return map[string]interface{}{"case": fmt.Sprintf("%+v", c), "nodes": size, "nodes_with_events": total, "widest_operator": ops, "verdict": map[bool]string{true: "rejected", false: "compiled and evaluated"}[co.Err != nil]}
		})
	}
	return nil
}

func sweepC09(tier string, shard, shards int, emit func(C09Case)) {
	i := 0
	send := func(c C09Case) {
		if i%shards == shard {
			emit(c)
		}
		i++
	}
	thorough := tier == "thorough"
	masks := []int{0, 15}
	if thorough {
		masks = []int{0, 1, 2, 4, 8, 15, 6, 13}
	}
	// stack requirements 1..24 for every shape, every mask, every event mode
	for need := 1; need <= 24; need++ {
		for shape := 0; shape < 7; shape++ {
			for mask := 0; mask < 16; mask++ {
				if !thorough && mask != 0 && mask != 15 && mask != MaskFast && mask != (need+shape)%16 {
					continue
				}
				for ev := 0; ev <= 2; ev++ {
					if !thorough && ev != (need+mask)%3 {
						continue
					}
					for deep := 0; deep < 6; deep++ {
						if !thorough && deep != 0 && deep != 1 && deep != (need+shape+mask)%6 {
							continue
						}
						send(C09Case{Kind: "stack", Shape: shape, Deep: deep, N: need, Mask: mask, Events: ev, Reach: true, Chan: ev == 0 && (need+shape+deep)%2 == 0})
						if shape == 1 || shape == 4 {
							send(C09Case{Kind: "stack", Shape: shape, Deep: deep, N: need, Mask: mask, Events: ev, Reach: false})
						}
					}
				}
			}
		}
	}
	// very deep operand stacks (right-nested three-operand calls), up to the largest program
	deeps := []int{16383, 16385, 21845}
	if thorough {
		deeps = []int{127, 129, 255, 257, 1023, 1025, 4095, 4097, 8191, 8193, 16381, 16383, 16385, 16387, 20001, 21841, 21843, 21845}
	}
	for _, n := range deeps {
		for _, mask := range masks {
			for ev := 0; ev <= 1; ev++ {
				send(C09Case{Kind: "deep", N: n, Mask: mask, Events: ev, Reach: true})
			}
		}
	}
	// operand counts around 127
	for _, op := range naryOps {
		for n := 125; n <= 130; n++ {
			if !thorough && n != 127 && n != 128 {
				continue
			}
			for _, mask := range masks {
				send(C09Case{Kind: "arity", Op: op, N: n, Mask: mask, Events: n % 3, Reach: true})
				if thorough || (n+len(op)+mask)%3 == 0 { // ... and below an if
					send(C09Case{Kind: "arity", Op: op, N: n, Mask: mask, Events: (n + 1) % 3, Reach: true, Wrap: 1 + (n+len(op)+mask)%3})
				}
				// constant operands (all, all but the last, all but the first)
				for consts := 1; consts <= 3; consts++ {
					if !thorough && consts != 1+(n+len(op)+mask)%3 {
						continue
					}
					send(C09Case{Kind: "arity", Op: op, N: n, Consts: consts, Mask: mask, Events: (n + consts) % 3, Reach: true})
				}
			}
		}
	}
	// a wide call as the last argument of other calls, both notations; huge list literals
	for _, op := range []string{"add", "and", "c_sum"} {
		for _, n := range []int{100, 126, 127, 128} {
			for _, infix := range []bool{false, true} {
				for lv := 0; lv < 3; lv++ {
					if !thorough && lv == 1 {
						continue
					}
					send(C09Case{Kind: "argwide", Op: op, N: n, Groups: lv, Shape: 29 * lv, Infix: infix, Mask: masks[(n+lv)%len(masks)], Events: (n + lv) % 3, Reach: true})
				}
			}
		}
	}
	for _, n := range []int{32768, 100000, 140000} {
		if !thorough && n == 140000 {
			continue
		}
		for _, infix := range []bool{false, true} {
			send(C09Case{Kind: "biglist", N: n, Infix: infix, Mask: masks[n%len(masks)], Events: n % 2, Reach: true})
		}
	}
	// far beyond the limit: counts at which a narrow integer wraps around into the accepted range again
	for _, op := range []string{"+", "and", "c_sum", "=", "or"} {
		for _, n := range []int{255, 256, 257, 300, 383, 384, 385, 511, 512, 513, 640, 1024, 32768 + 5} {
			if !thorough && n != 256 && n != 300 && n != 512 && n != 32768+5 {
				continue
			}
			for _, mask := range masks {
				send(C09Case{Kind: "arity", Op: op, N: n, Mask: mask, Events: n % 3, Reach: true})
				send(C09Case{Kind: "arity", Op: op, N: n, Consts: 2, Mask: mask, Events: (n + 1) % 3, Reach: true})
			}
		}
	}
	// flattening crosses 127
	for _, pair := range [][2]string{{"and", "and"}, {"and", "&&"}, {"or", "||"}, {"and", "or"}, {"|", "or"}} {
		for _, groups := range []int{2, 3, 5} {
			for n := 125; n <= 130; n++ {
				if !thorough && n != 127 && n != 128 {
					continue
				}
				for mask := 0; mask < 16; mask++ {
					if !thorough && mask != 0 && mask != 2 && mask != 15 {
						continue
					}
					send(C09Case{Kind: "flatten", Op: pair[0], Inner: pair[1], Groups: groups, N: n, Mask: mask, Events: mask % 3, Reach: true})
				}
			}
		}
	}
	// node counts around the limits
	bases := []int{16383, 16384, 32767}
	deltas := []int{-1, 0, 1}
	if thorough {
		deltas = []int{-3, -2, -1, 0, 1, 2, 3}
	}
	for _, pair := range [][2]string{{"+", "+"}, {"and", "or"}} {
		for _, b := range bases {
			for _, d := range deltas {
				for _, mask := range masks {
					for ev := 0; ev <= 2; ev++ {
						if !thorough && ev == 2 {
							continue
						}
						send(C09Case{Kind: "nodes", Op: pair[0], Inner: pair[1], N: b + d, Mask: mask, Events: ev, Reach: true})
						if ev == 0 && d == 0 { // event options present in the config, and false: nothing is reported, nothing is counted
							send(C09Case{Kind: "nodes", Op: pair[0], Inner: pair[1], N: b + d, Mask: mask, Events: -1 - (b+mask)%3, Reach: true})
						}
						// the same size reached with if nodes (their end-if marker is a node too) and
						// with two-leaf operators (inlined, so no event node, but only under FastEvaluation)
						for _, dec := range [][2]int{{1, 0}, {3, 0}, {500, 0}, {0, 1}, {0, 3}, {0, 500}, {20, 20}} {
							if !thorough && (dec[0]+dec[1])%2 == 0 && dec[0]+dec[1] < 40 {
								continue
							}
							send(C09Case{Kind: "nodes", Op: pair[0], Inner: pair[1], N: b + d, Ifs: dec[0], Bins: dec[1], Mask: mask, Events: ev, Reach: true})
						}
						// ... and with two-leaf operators as condition and branches of ifs
						for _, ib := range []int{1, 20, 500} {
							if !thorough && ib == 20 {
								continue
							}
							send(C09Case{Kind: "nodes", Op: pair[0], Inner: pair[1], N: b + d, IfBins: ib, Mask: mask, Events: ev, Reach: true})
						}
					}
				}
			}
		}
	}
}

var propC09 = Prop[C09Case]{
	ID:    "C09",
	Rule:  "constructed boundary programs: (argwide) a 100..130-operand call as the last argument of 1..3 enclosing calls with up to 40 pending operands, prefix and infix; (biglist) three-node programs over list literals of up to 140 000 elements; (arity) every n-ary operator and alias with 120..135 operands and with counts where narrow integers wrap (255..257, 300, 383..385, 511..513, 640, 1024, 32773) - variables, neutral constants, constants then a variable, a variable then constants; (flatten) and/or whose operand count crosses 127 only after ReduceNesting merges 2..6 inner operators, same and different operator kinds; (nodes; also with leaves replaced by ifs, by two-leaf operators, and by ifs over two-leaf operators) programs of exactly N nodes for N within +-3 of 16383, 16384 and 32767 (and 8192, 10922) built from <=127-ary layers of + or alternating and/or over variables; (stack) six nesting shapes (right-nested arithmetic, alternating and/or, wide-then-deep, if chains, comparison under and, deep-first) for every operand-stack requirement 1..24; x optimization subsets x {no events, ReportEvent, Debug, both, event keys present and false} x programs below an if (branch, condition) x bindings that reach the deepest point / short-circuit at once; programs compiled without events sometimes get a channel attached to Expr.EventChan all the same. Oracle: Compile returns exactly one of program/error, never panics; it rejects iff the harness's own count on the optimized shape exceeds a limit (operands > 127, nodes > 32767, nodes incl. event nodes > 32767); compiled programs are themselves within the limits (node count and widest operator read through the hook; a program the size model puts beyond a limit may compile only if what was built is smaller than modelled and within the limits), have a stack bound >= the slots the evaluation needs (hook), and Eval and TryEval return R's value. Non-trivial = a size parameter within +-2 of 127 / 16383 / 32767 or a stack requirement within +-2 of 8 / 16; distinct by parameters. The sweep part is an exhaustive grid (reduced in quick)",
	Gen:   genC09,
	Check: checkC09,
	Sweep: sweepC09,
	Limit: 600 * time.Second,
}

func TestC09(t *testing.T)       { Run(t, propC09) }
func TestC09Replay(t *testing.T) { Replay(t, propC09) }

var _ = strings.Repeat
