//go:build verif

package props

import (
	"fmt"
	"os"
	"path/filepath"
	"strconv"
	"testing"

	"pgregory.net/rapid"
)

// Coverage-guided search over the *structured* generators (thorough tier only).
//
// rapid.MakeFuzz turns a property into a native fuzz target whose input is rapid's own bit
// stream: the Go fuzzer mutates that stream under coverage feedback from the engine (the
// engine's packages are instrumented by `go test -fuzz`), the generator decodes it into a case,
// and the SAME oracle as in the random search judges it. This reaches branches of the engine
// that uniform random drawing meets rarely, without giving up the typed generators. A failing
// worker writes the case as JSON (the replay unit - it bypasses both rapid and the fuzzer); the
// fuzzer's minimisation re-runs the target and every failing re-run overwrites the file, so the
// last write is the smallest failing case seen. Budget expiry means "nothing found".

func guidedPath(id string) string {
	return filepath.Join(replayDir(), id+".guided.json")
}

func Guided[C any](f *testing.F, p Prop[C]) {
	r := newRec(p.ID)
	// starting corpus: bit streams long enough to decode into full-size cases (an empty stream
	// decodes into the all-minimal case); a fixed xorshift sequence keyed by VERIF_SEED - the
	// campaign itself cannot be pinned (Go's fuzzer has no seed), the saved case is the reproducible unit
	seed, _ := strconv.ParseUint(envOr("VERIF_SEED", "1"), 10, 64)
	x := seed*0x9E3779B97F4A7C15 + 0x1234567
	for i := 0; i < 48; i++ {
		b := make([]byte, 512<<(i%4))
		for j := range b {
			x ^= x << 13
			x ^= x >> 7
			x ^= x << 17
			b[j] = byte(x >> 24)
			if i%3 == 1 && j%8 != 0 {
				b[j] &= 0x0f // small draws: rapid reads 8-byte words, low values pick the simple alternatives
			}
		}
		f.Add(b)
	}
	f.Fuzz(rapid.MakeFuzz(func(rt *rapid.T) {
		c := p.Gen(rt)
		if v := p.runCase(c, r); v != nil {
			writeReplayTo(guidedPath(p.ID), p.ID, c, v.Msg)
			rt.Fatalf("VIOLATION-DETAIL property=%s\n%s", p.ID, v.Msg)
		}
	}))
}

func FuzzGuidedC01(f *testing.F) { Guided(f, propC01) }
func FuzzGuidedC02(f *testing.F) { Guided(f, propC02) }
func FuzzGuidedC03(f *testing.F) { Guided(f, propC03) }
func FuzzGuidedC04(f *testing.F) { Guided(f, propC04) }
func FuzzGuidedC05(f *testing.F) { Guided(f, propC05) }
func FuzzGuidedC10(f *testing.F) { Guided(f, propC10) }
func FuzzGuidedC11(f *testing.F) { Guided(f, propC11) }
func FuzzGuidedC12(f *testing.F) { Guided(f, propC12) }
func FuzzGuidedC13(f *testing.F) { Guided(f, propC13) }
func FuzzGuidedC14(f *testing.F) { Guided(f, propC14) }
func FuzzGuidedC15(f *testing.F) { Guided(f, propC15) }
func FuzzGuidedC16(f *testing.F) { Guided(f, propC16) }
func FuzzGuidedC17(f *testing.F) { Guided(f, propC17) }
func FuzzGuidedC18(f *testing.F) { Guided(f, propC18) }
func FuzzGuidedC19(f *testing.F) { Guided(f, propC19) }
func FuzzGuidedC20(f *testing.F) { Guided(f, propC20) }

var _ = fmt.Sprint
var _ = os.Remove
