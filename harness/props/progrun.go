package props

import (
	"fmt"

	"github.com/onheap/eval"

	m "verifharness/model"
)

// CfgRun is one compilation of a source under one optimisation subset, evaluated
// once through the instrumented fetcher, together with the reference run on the
// program the engine says it built (its own Dump).
type CfgRun struct {
	Mask    int
	Expr    *eval.Expr
	Cfg     *eval.Config
	Dump    string
	Table   string
	DTree   *m.Node
	Out     Outcome
	Trace   []m.Ev
	Compile []m.Ev // custom-operator calls made during Compile
	NilCtx  []bool
	Log     *Log // the log the program's custom operators write to (state of stateful operators lives here)
	Fast    bool
	Events  int // compiled with ReportEvent (1) / Debug (2): every evaluation needs a consumer

	RefVal   interface{}
	RefErr   error
	RefTrace []m.Ev
	RefApps  []m.Ev
	RefSC    int
}

// runCfg compiles src under b, evaluates it, dumps it and runs the reference on the dump.
func runCfg(pid string, u *Universe, src string, b Build) (*CfgRun, *Violation) {
	log := &Log{}
	cc, prefix := NewConfig(u, log, b)
	e, co := SafeCompile(cc, prefix+src)
	if co.Panic != nil || co.Err != nil || e == nil {
		return nil, Violf("%s: well-formed expression does not compile under %s\nsrc=%s\noutcome=%v", pid, maskName(b.Mask), src, co)
	}
	run := &CfgRun{Mask: b.Mask, Expr: e, Cfg: cc, Compile: append([]m.Ev(nil), log.Ev...), NilCtx: append([]bool(nil), log.NilCtx...), Log: log, Fast: b.Mask&MaskFast != 0, Events: b.Events}
	var o Outcome
	run.Dump, o = SafeStr(func() string { return eval.Dump(e) })
	if o.Panic != nil {
		return nil, Violf("%s: Dump panics under %s\nsrc=%s\n%v", pid, maskName(b.Mask), src, o)
	}
	run.Table, o = SafeStr(func() string { return eval.DumpTable(e, true) })
	if o.Panic != nil {
		return nil, Violf("%s: DumpTable panics under %s\nsrc=%s\n%v", pid, maskName(b.Mask), src, o)
	}
	dt, err := m.ReadDump(run.Dump)
	if err != nil {
		return nil, Violf("%s: Dump output is not a readable prefix expression under %s\nsrc=%s\ndump=%s\n%v", pid, maskName(b.Mask), src, run.Dump, err)
	}
	run.DTree = dt

	calls := log.Calls()
	log.Reset()
	f := NewFetcher(u, cc, log)
	run.withConsumer(func() { run.Out = Safe(func() (eval.Value, error) { return e.Eval(f.Ctx()) }) })
	run.Trace = append([]m.Ev(nil), log.Ev...)
	if len(log.KeyErrs) != 0 {
		return nil, Violf("%s: variable fetched under a wrong key: %v\nsrc=%s", pid, log.KeyErrs, src)
	}

	ref := &m.Env{Vars: u.Bound(), Fail: u.Fail(), Custom: customModel(), Calls: calls, Fast: b.Mask&MaskFast != 0}
	run.RefVal, run.RefErr = ref.Eval(dt)
	run.RefTrace, run.RefApps, run.RefSC = ref.Trace, ref.Apps, ref.ShortCircuits
	return run, nil
}

// withConsumer runs f with a draining event consumer attached when the program reports events.
func (r *CfgRun) withConsumer(f func()) {
	if r.Events > 0 {
		collectEvents(r.Expr, f)
		return
	}
	f()
}

func (r *CfgRun) describe(src string, u *Universe) string {
	return fmt.Sprintf("config=%s\nsrc=%s\ndump=%s\nbinding=%v", maskName(r.Mask), src, r.Dump, describeU(u))
}

// checkAgainstOwnDump: the outcome of a configuration equals the reference run on
// the program it dumped (C02 e); returns skip=true when the one permitted extra
// fetch failed and nothing can be said.
func (r *CfgRun) checkAgainstOwnDump(pid, src string, u *Universe) (skip bool, v *Violation) {
	if r.Out.Panic != nil {
		return false, Violf("%s: Eval panics\n%s\n%v", pid, r.describe(src, u), r.Out)
	}
	if r.RefErr == m.ErrOptionalFetch {
		return true, nil
	}
	if !Agrees(r.Out, r.RefVal, r.RefErr) {
		return false, Violf("%s: Eval disagrees with short-circuit evaluation of the program Dump shows\n%s\nengine=%v\nreference(on dump)=%s",
			pid, r.describe(src, u), r.Out, refString(r.RefVal, r.RefErr))
	}
	return false, nil
}

// Again evaluates the same compiled program once more and runs the reference on its dump
// with the operators' state threaded through; it returns a violation if the effects or the
// result of the repeated evaluation differ from the reference.
func (r *CfgRun) Again(pid, src string, u *Universe, nth int) *Violation {
	return r.again(pid, src, u, nth, false)
}

// AgainTry is Again through TryEval, with every variable available.
func (r *CfgRun) AgainTry(pid, src string, u *Universe, nth int) *Violation {
	return r.again(pid, src, u, nth, true)
}

func (r *CfgRun) again(pid, src string, u *Universe, nth int, try bool) *Violation {
	_, v := r.againOut(pid, src, u, nth, try)
	return v
}

// againOut is again, also returning the engine's outcome.
func (r *CfgRun) againOut(pid, src string, u *Universe, nth int, try bool) (Outcome, *Violation) {
	calls := r.Log.Calls()
	r.Log.Reset()
	f := NewFetcher(u, r.Cfg, r.Log)
	var o Outcome
	r.withConsumer(func() {
		o = Safe(func() (eval.Value, error) {
			if try {
				return r.Expr.TryEval(f.Ctx())
			}
			return r.Expr.Eval(f.Ctx())
		})
	})
	if try {
		pid += " (TryEval, every variable available)"
	}
	trace := append([]m.Ev(nil), r.Log.Ev...)
	ref := &m.Env{Vars: u.Bound(), Fail: u.Fail(), Custom: customModel(), Calls: calls, Fast: r.Fast}
	rv, rerr := ref.Eval(r.DTree)
	if o.Panic != nil {
		return o, Violf("%s: evaluation %d of the same program panics\n%s\n%v", pid, nth, r.describe(src, u), o)
	}
	if !MatchTrace(trace, ref.Trace) {
		return o, Violf("%s: evaluation %d of the same compiled program does not perform the fetches / operator calls of the dumped program\n%s\nengine   =%v\nreference=%v", pid, nth, r.describe(src, u), m.TraceStrings(trace), m.TraceStrings(ref.Trace))
	}
	if rerr != m.ErrOptionalFetch && !Agrees(o, rv, rerr) {
		return o, Violf("%s: evaluation %d of the same compiled program returns %v, the reference gives %s\n%s", pid, nth, o, refString(rv, rerr), r.describe(src, u))
	}
	return o, nil
}
