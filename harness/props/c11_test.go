package props

import (
	"fmt"
	"math"
	"reflect"
	"sort"
	"strings"
	"testing"
	"time"

	"github.com/onheap/eval"
	"pgregory.net/rapid"

	m "verifharness/model"
)

// C11 – variables read the value bound to their name under any key layout.

type C11Pre struct {
	Name string `json:"name"`
	Key  int16  `json:"key"`
}

type C11Step struct {
	Kind  int      `json:"kind"` // 0 GetOrRegisterKey(Names[0]), 1 RegVarAndOp(Names...), 2 GetOrRegisterKey of an already registered name, 3 ExtendConf(base)(cc) with a base config that holds Names under free explicit keys
	Names []string `json:"names"`
}

type C11Case struct {
	Names     []string  `json:"names"`
	Pre       []C11Pre  `json:"pre,omitempty"`
	Steps     []C11Step `json:"steps,omitempty"`
	Undefined bool      `json:"undefined,omitempty"` // AllowUndefinedVariable: names not covered by Pre/Steps stay unregistered
	Vals      []m.V     `json:"vals"`                // bound value per name, any supported raw type
	Probe     []int     `json:"probe"`               // indexes of names evaluated one by one
	Extra     []m.V     `json:"extra,omitempty"`     // bindings for names the config never registered (x0, x1, ...): must be ignored
}

// reservedLookingNames: the parser's keywords and some operator names; as registered variables
// they are ordinary names.
var reservedLookingNames = []string{"if", "let", "any", "all", "map", "filter", "reduce", "collect", "in", "not", "date", "eq", "mod", "and", "overlap", "version"}

var keyPool = []int{-32768, -3, -2, -1, 0, 1, 2, 3, 250, 251, 252, 253, 254, 255, 256, 257, 258, 259, 260, 32760, 32761, 32765, 32766, 32767}

func genRawValue(t *rapid.T) interface{} {
	i64 := func() int64 {
		return rapid.SampledFrom([]int64{0, 1, -1, 7, 127, 128, 255, 256, 32767, 65535, math.MaxInt32, math.MinInt32, math.MaxInt64, math.MinInt64}).Draw(t, "rawint")
	}
	switch rapid.IntRange(0, 19).Draw(t, "rawkind") {
	case 0:
		return int(i64())
	case 1:
		return int8(i64())
	case 2:
		return int16(i64())
	case 3:
		return int32(i64())
	case 4:
		return i64()
	case 5:
		return uint8(i64())
	case 6:
		return uint16(i64())
	case 7:
		return uint32(i64())
	case 8:
		return uint64(i64())
	case 9:
		return rapid.SliceOfN(rapid.IntRange(-5, 5), 0, 4).Draw(t, "lint")
	case 10:
		return rapid.SliceOfN(rapid.Int32Range(math.MinInt32, math.MaxInt32), 0, 4).Draw(t, "li32")
	case 11:
		l := rapid.SliceOfN(rapid.Int64(), 0, 4).Draw(t, "li64")
		if l == nil {
			l = []int64{}
		}
		return l
	case 12:
		l := rapid.SliceOfN(rapid.SampledFrom(strElemPool), 0, 4).Draw(t, "lstr")
		if l == nil {
			l = []string{}
		}
		return l
	case 13:
		sec := rapid.SampledFrom([]int64{0, 1, -1, 1609459200, 253402300799, -62135596800}).Draw(t, "tsec")
		ns := rapid.SampledFrom([]int64{0, 1, 999999999, 500000000}).Draw(t, "tns")
		return time.Unix(sec, ns).UTC()
	case 14:
		if rapid.Bool().Draw(t, "longdur") {
			// long durations whose sub-second part is a few nanoseconds away from a whole second
			sec := rapid.SampledFrom([]int64{1 << 24, 20000000, 1 << 27, 315360000, 1 << 30, 1 << 32, 9000000000}).Draw(t, "dursec")
			if rapid.Bool().Draw(t, "anydursec") {
				sec = rapid.Int64Range(1<<24, 9000000000).Draw(t, "dursecv")
			}
			ns := rapid.SampledFrom([]int64{-1, -2, -3, 1, 999999999, 999999998, 0, 500000000}).Draw(t, "durns")
			d := time.Duration(sec*1000000000 + ns)
			if rapid.Bool().Draw(t, "negdur") {
				d = -d
			}
			return d
		}
		return time.Duration(rapid.SampledFrom([]int64{0, 1, 999999999, 1000000000, 1500000000, -1500000000, -999999999, 3600 * 1e9, math.MaxInt64, math.MinInt64}).Draw(t, "dur"))
	case 15:
		return rapid.Bool().Draw(t, "rawbool")
	case 16:
		return rapid.SampledFrom(strPool).Draw(t, "rawstr")
	case 17:
		// a type the documentation does not list for normalisation: the variable evaluates to the value
		// that was bound, as it was bound (a float stays that float)
		return rapid.SampledFrom([]float64{2, 2.5, 0, -1, 1e20, 9007199254740992, 0.1}).Draw(t, "rawfloat")
	default:
		return rapid.Int64Range(-100, 100).Draw(t, "smallint")
	}
}

// normalise is the documented type normalisation, written independently of the engine.
func normalise(v interface{}) interface{} {
	switch x := v.(type) {
	case int:
		return int64(x)
	case int8:
		return int64(x)
	case int16:
		return int64(x)
	case int32:
		return int64(x)
	case uint8:
		return int64(x)
	case uint16:
		return int64(x)
	case uint32:
		return int64(x)
	case uint64:
		return int64(x)
	case []int:
		out := make([]int64, len(x))
		for i, e := range x {
			out[i] = int64(e)
		}
		return out
	case []int32:
		out := make([]int64, len(x))
		for i, e := range x {
			out[i] = int64(e)
		}
		return out
	case time.Time:
		return x.Unix()
	case time.Duration:
		return int64(x) / 1000000000
	}
	return v
}

func genC11(t *rapid.T) C11Case {
	n := rapid.IntRange(1, 40).Draw(t, "n")
	if rapid.IntRange(0, 9).Draw(t, "many") == 0 {
		n = rapid.IntRange(100, 126).Draw(t, "nmany")
	}
	c := C11Case{}
	for i := 0; i < n; i++ {
		c.Names = append(c.Names, fmt.Sprintf("v%d", i))
		c.Vals = append(c.Vals, m.V{X: genRawValue(t)})
	}
	c.Undefined = rapid.IntRange(0, 3).Draw(t, "undefined") == 0
	// registered variables may carry the names of keywords and operators (undefined-variable mode
	// refuses such names by design)
	if !c.Undefined && rapid.IntRange(0, 3).Draw(t, "oplike") == 0 {
		pool := rapid.Permutation(reservedLookingNames).Draw(t, "oplike_names")
		for i := 0; i < len(pool) && i < n; i++ {
			if rapid.Bool().Draw(t, "oplike_use") {
				c.Names[(i*7)%n] = pool[i]
			}
		}
		seen := map[string]bool{}
		for i, nm := range c.Names { // (i*7)%n may repeat: keep names distinct
			if seen[nm] {
				c.Names[i] = fmt.Sprintf("v%d", i)
			}
			seen[c.Names[i]] = true
		}
	}
	order := rapid.Permutation(c.Names).Draw(t, "order")
	npre := rapid.IntRange(0, n).Draw(t, "npre")
	if rapid.Bool().Draw(t, "fewpre") {
		npre = rapid.IntRange(0, min(n, 3)).Draw(t, "npre2")
	}
	used := map[int]bool{}
	for i := 0; i < npre; i++ {
		var k int
		for try := 0; ; try++ {
			switch rapid.IntRange(0, 3).Draw(t, "keykind") {
			case 0:
				k = rapid.SampledFrom(keyPool).Draw(t, "key")
			case 1:
				k = rapid.IntRange(-32768, 32767).Draw(t, "key")
			default:
				k = rapid.IntRange(0, n+3).Draw(t, "key")
			}
			if !used[k] {
				break
			}
			if try > 50 { // find any free key deterministically
				for k = 0; used[k]; k++ {
				}
				break
			}
		}
		used[k] = true
		c.Pre = append(c.Pre, C11Pre{Name: order[i], Key: int16(k)})
	}
	rest := order[npre:]
	for len(rest) > 0 {
		switch pickW(t, "step", 6, 2, 1, 1, 1) {
		case 0:
			c.Steps = append(c.Steps, C11Step{Kind: 0, Names: []string{rest[0]}})
			rest = rest[1:]
		case 1:
			k := rapid.IntRange(1, min(len(rest), 4)).Draw(t, "batch")
			c.Steps = append(c.Steps, C11Step{Kind: 1, Names: append([]string{}, rest[:k]...)})
			rest = rest[k:]
		case 2: // ask again for a name that is already there
			c.Steps = append(c.Steps, C11Step{Kind: 2, Names: []string{order[rapid.IntRange(0, len(order)-1).Draw(t, "again")]}})
		case 3:
			if c.Undefined { // leave it unregistered
				rest = rest[1:]
			}
		default: // a base config with further names is merged into the config built so far
			k := rapid.IntRange(1, min(len(rest), 3)).Draw(t, "extbatch")
			c.Steps = append(c.Steps, C11Step{Kind: 3, Names: append([]string{}, rest[:k]...)})
			rest = rest[k:]
		}
	}
	for i, ne := 0, rapid.IntRange(0, 3).Draw(t, "nextra"); i < ne; i++ {
		c.Extra = append(c.Extra, m.V{X: genRawValue(t)})
	}
	np := min(n, 3)
	c.Probe = rapid.SliceOfNDistinct(rapid.IntRange(0, n-1), np, np, rapid.ID[int]).Draw(t, "probe")
	return c
}

func checkC11(c C11Case, r *Rec) *Violation {
	cc := eval.NewConfig()
	if c.Undefined {
		eval.EnableUndefinedVariable(cc)
	}
	for _, p := range c.Pre {
		cc.VariableKeyMap[p.Name] = eval.VariableKey(p.Key)
	}
	snapshot := func() map[string]eval.VariableKey {
		out := map[string]eval.VariableKey{}
		for k, v := range cc.VariableKeyMap {
			out[k] = v
		}
		return out
	}
	checkMap := func(before map[string]eval.VariableKey, step string) *Violation {
		seen := map[eval.VariableKey]string{}
		for _, name := range sortedKeys(cc.VariableKeyMap) {
			k := cc.VariableKeyMap[name]
			if other, dup := seen[k]; dup {
				return Violf("C11: after %s the key %d is assigned to both %q and %q\nkey map=%v", step, k, other, name, cc.VariableKeyMap)
			}
			seen[k] = name
		}
		for name, k := range before {
			if now, ok := cc.VariableKeyMap[name]; !ok || now != k {
				return Violf("C11: %s changed the existing assignment of %q from %d to %d (present=%v)", step, name, k, now, ok)
			}
		}
		return nil
	}
	// undefined-variable mode: a program compiled NOW, while some of its variables are not registered
	// yet (they go by name), still reads them after they were registered and a context was built
	var early *eval.Expr
	if c.Undefined {
		cc.OperatorMap["c_tuple"] = func(_ *eval.Ctx, params []eval.Value) (eval.Value, error) {
			return append([]eval.Value{}, params...), nil
		}
		names := c.Names
		if len(names) > 24 {
			names = names[:24]
		}
		if e, co := SafeCompile(cc, "(c_tuple "+strings.Join(names, " ")+")"); co.Panic == nil && co.Err == nil {
			early = e
		}
	}
	gapFilled := false
	for _, s := range c.Steps {
		before := snapshot()
		switch s.Kind {
		case 0, 2:
			var k eval.VariableKey
			o := Safe(func() (eval.Value, error) { k = eval.GetOrRegisterKey(cc, s.Names[0]); return nil, nil })
			if o.Panic != nil {
				return Violf("C11: GetOrRegisterKey panics: %v", o)
			}
			if got, ok := cc.VariableKeyMap[s.Names[0]]; !ok || got != k {
				return Violf("C11: GetOrRegisterKey(%q) returned %d but the map holds %d (present=%v)", s.Names[0], k, got, ok)
			}
			if _, had := before[s.Names[0]]; !had && int(k) <= len(before) {
				gapFilled = true
			}
		case 1:
			mm := map[string]interface{}{}
			for _, n := range s.Names {
				mm[n] = 0
			}
			eval.RegVarAndOp(mm)(cc)
			for _, n := range s.Names {
				if _, ok := cc.VariableKeyMap[n]; !ok {
					return Violf("C11: RegVarAndOp did not register %q", n)
				}
			}
		case 3:
			// the base holds the names under the first free keys from an offset on; merging it must
			// add them and keep everything registered before
			inUse := map[eval.VariableKey]bool{}
			for _, k := range cc.VariableKeyMap {
				inUse[k] = true
			}
			base := eval.NewConfig()
			next := eval.VariableKey([]int{1, 1, 200, 12000}[len(before)%4])
			for _, n := range s.Names {
				if _, already := cc.VariableKeyMap[n]; already {
					continue // (an earlier repeated request registered it: the base would legitimately re-key it)
				}
				for inUse[next] {
					next++
				}
				base.VariableKeyMap[n] = next
				inUse[next] = true
			}
			eval.ExtendConf(base)(cc)
			for n := range base.VariableKeyMap {
				if got, ok := cc.VariableKeyMap[n]; !ok || got != base.VariableKeyMap[n] {
					return Violf("C11: ExtendConf(base) did not take over %q with key %d (present=%v, key %d)", n, base.VariableKeyMap[n], ok, got)
				}
			}
		}
		if v := checkMap(before, fmt.Sprintf("step %+v", s)); v != nil {
			return v
		}
	}
	if v := checkMap(nil, "the registration history"); v != nil {
		return v
	}
	if !c.Undefined {
		for _, n := range c.Names {
			if _, ok := cc.VariableKeyMap[n]; !ok {
				return nil // hand-written corpus case outside the domain (unregistered name without undefined mode)
			}
		}
	}

	cc.OperatorMap["c_tuple"] = func(_ *eval.Ctx, params []eval.Value) (eval.Value, error) {
		return append([]eval.Value{}, params...), nil
	}
	cc.OperatorMap["c_id"] = func(_ *eval.Ctx, params []eval.Value) (eval.Value, error) { return params[0], nil }

	vals := map[string]interface{}{}
	want := make([]interface{}, len(c.Names))
	for i, n := range c.Names {
		vals[n] = c.Vals[i].X
		want[i] = normalise(c.Vals[i].X)
	}
	for i, x := range c.Extra {
		vals[fmt.Sprintf("x%d", i)] = x.X
	}
	// the public normalisation helpers agree with the documented normalisation
	vm := eval.ToValueMap(vals)
	for i, n := range c.Names {
		if !equalNormalised(vm[n], want[i]) || !equalNormalised(eval.UnifyType(c.Vals[i].X), want[i]) {
			return Violf("C11: ToValueMap / UnifyType give %v (%T) / %v for %v (%T); the documented normalisation is %v (%T)", vm[n], vm[n], eval.UnifyType(c.Vals[i].X), c.Vals[i].X, c.Vals[i].X, want[i], want[i])
		}
	}
	var ctx *eval.Ctx
	if o := Safe(func() (eval.Value, error) { ctx = eval.NewCtxFromVars(cc, vals); return nil, nil }); o.Panic != nil {
		return Violf("C11: NewCtxFromVars panics: %v\nkey map=%v", o, cc.VariableKeyMap)
	}
	// building a context reads the caller's bindings, it does not rewrite them
	for i, n := range c.Names {
		if now, ok := vals[n]; !ok || fmt.Sprintf("%T", now) != fmt.Sprintf("%T", c.Vals[i].X) || !reflect.DeepEqual(now, c.Vals[i].X) {
			return Violf("C11: NewCtxFromVars changed the caller's bindings map: %q was %v (%T), is now %v (%T)", n, c.Vals[i].X, c.Vals[i].X, now, now)
		}
	}
	if len(vals) != len(c.Names)+len(c.Extra) {
		return Violf("C11: NewCtxFromVars changed the size of the caller's bindings map: %d entries, was %d", len(vals), len(c.Names)+len(c.Extra))
	}
	fetcher := fmt.Sprintf("%T", ctx.VariableFetcher)
	describe := func() string {
		return fmt.Sprintf("key map=%v\nfetcher=%s undefined-mode=%v", cc.VariableKeyMap, fetcher, c.Undefined)
	}

	// all variables at once, positionally
	for _, names := range chunk(c.Names, 120) {
		src := "(c_tuple " + strings.Join(names, " ") + ")"
		for _, mask := range []int{0, 15, 5} {
			for i, o := range allOpts {
				cc.CompileOptions[o] = mask&(1<<i) != 0
			}
			if mask == 5 {
				// the same tuple with every second variable passed through an identity call: a variable
				// stands directly in front of a parenthesis, and directly behind one
				parts := make([]string, len(names))
				for k, n := range names {
					parts[k] = n
					if k%2 == 1 {
						parts[k] = "(c_id " + n + ")"
					}
				}
				src = "(c_tuple " + strings.Join(parts, " ") + ")"
			}
			e, co := SafeCompile(cc, src)
			if co.Panic != nil || co.Err != nil {
				return Violf("C11: %s does not compile: %v\n%s", clip(src, 200), co, describe())
			}
			o := Safe(func() (eval.Value, error) { return e.Eval(ctx) })
			if o.Panic != nil || o.Err != nil {
				return Violf("C11: evaluating the variables fails: %v\n%s", o, describe())
			}
			got, ok := o.Val.([]eval.Value)
			if !ok || len(got) != len(names) {
				return Violf("C11: unexpected tuple %v", o)
			}
			for j, n := range names {
				idx := indexOf(c.Names, n)
				if !equalNormalised(got[j], want[idx]) {
					return Violf("C11: variable %q evaluates to %v (%T) but is bound to %v (%T), normalised %v (config %s)\n%s", n, got[j], got[j], c.Vals[idx].X, c.Vals[idx].X, want[idx], maskName(mask), describe())
				}
			}
			// every value was supplied: TryEval reads the same values under the same keys
			ot := Safe(func() (eval.Value, error) { return e.TryEval(ctx) })
			gt, okt := ot.Val.([]eval.Value)
			if ot.Panic != nil || ot.Err != nil || !okt || len(gt) != len(got) {
				return Violf("C11: TryEval over a context that holds every value does not read the variables: %v (Eval: %v)\n%s", ot, o, describe())
			}
			for j := range got {
				if !equalNormalised(gt[j], got[j]) {
					return Violf("C11: TryEval reads %v (%T) for variable %q, Eval reads %v (config %s)\n%s", gt[j], gt[j], names[j], got[j], maskName(mask), describe())
				}
			}
		}
	}
	// single-variable programs
	for _, pi := range c.Probe {
		if pi >= len(c.Names) {
			continue
		}
		n := c.Names[pi]
		for _, src := range []string{"(if true " + n + " " + n + ")", "(c_id " + n + ")"} {
			for i, o := range allOpts {
				cc.CompileOptions[o] = pi%2 == 0 || i == 0
			}
			e, co := SafeCompile(cc, src)
			if co.Panic != nil || co.Err != nil {
				return Violf("C11: %s does not compile: %v\n%s", src, co, describe())
			}
			o := Safe(func() (eval.Value, error) { return e.Eval(ctx) })
			if o.Panic != nil || o.Err != nil || !equalNormalised(o.Val, want[pi]) {
				return Violf("C11: %s evaluates to %v but %q is bound to %v (%T), normalised %v\n%s", src, o, n, c.Vals[pi].X, c.Vals[pi].X, want[pi], describe())
			}
		}
	}

	// two different variables under one two-operand call (a fast operator when FastEvaluation is on)
	for a := 0; a+1 < len(c.Probe); a++ {
		i, j := c.Probe[a], c.Probe[a+1]
		if i >= len(c.Names) || j >= len(c.Names) || i == j {
			continue
		}
		src := "(c_tuple " + c.Names[i] + " " + c.Names[j] + ")"
		for _, mask := range []int{MaskFast, 15, 0} {
			for k, o := range allOpts {
				cc.CompileOptions[o] = mask&(1<<k) != 0
			}
			e, co := SafeCompile(cc, src)
			if co.Panic != nil || co.Err != nil {
				return Violf("C11: %s does not compile: %v\n%s", src, co, describe())
			}
			o := Safe(func() (eval.Value, error) { return e.Eval(ctx) })
			got, ok := o.Val.([]eval.Value)
			if o.Panic != nil || o.Err != nil || !ok || len(got) != 2 || !equalNormalised(got[0], want[i]) || !equalNormalised(got[1], want[j]) {
				return Violf("C11: %s (config %s) evaluates to %v; %q is bound to %v and %q to %v\n%s", src, maskName(mask), o, c.Names[i], want[i], c.Names[j], want[j], describe())
			}
		}
	}

	if early != nil {
		o := Safe(func() (eval.Value, error) { return early.Eval(ctx) })
		got, ok := o.Val.([]eval.Value)
		if o.Panic != nil || o.Err != nil || !ok {
			return Violf("C11: a program compiled before its variables were registered (undefined-variable mode) cannot be evaluated over a context built afterwards: %v\n%s", o, describe())
		}
		for j := range got {
			if !equalNormalised(got[j], want[j]) {
				return Violf("C11: a program compiled before its variables were registered reads %v (%T) for %q, bound to %v, normalised %v\n%s", got[j], got[j], c.Names[j], c.Vals[j].X, want[j], describe())
			}
		}
		r.Class("compiled-before-registration")
	}
	// the one-shot helper over the same layout (handed over with ExtendConf): the bindings map also
	// holds the extra names the layout does not know
	{
		names := c.Names
		if len(names) > 24 {
			names = names[:24]
		}
		src := "(c_tuple " + strings.Join(names, " ") + ")"
		o := Safe(func() (eval.Value, error) { return eval.Eval(src, vals, eval.ExtendConf(cc)) })
		got, ok := o.Val.([]eval.Value)
		if o.Panic != nil || o.Err != nil || !ok || len(got) != len(names) {
			return Violf("C11: one-shot eval.Eval(%s, bindings, ExtendConf(layout)) fails: %v\n%s", clip(src, 200), o, describe())
		}
		for j, n := range names {
			if !equalNormalised(got[j], want[j]) {
				return Violf("C11: one-shot eval.Eval over the layout: variable %q evaluates to %v (%T) but is bound to %v (%T), normalised %v\nbindings also hold %d names the layout does not know\n%s", n, got[j], got[j], c.Vals[j].X, c.Vals[j].X, want[j], len(c.Extra), describe())
			}
		}
	}

	// evidence
	r.Class("fetcher:" + fetcher)
	special := false
	for _, k := range cc.VariableKeyMap {
		if k < 0 || k == 0 || k == 255 || k == 256 || k > 256 {
			special = true
		}
	}
	if gapFilled {
		r.Class("gap-filled")
	}
	if c.Undefined {
		r.Class("undefined-mode")
	}
	if special || gapFilled {
		keys := make([]int, 0)
		for _, k := range cc.VariableKeyMap {
			keys = append(keys, int(k))
		}
		sort.Ints(keys)
		r.NonTrivial(fmt.Sprint(c.Pre, c.Steps, c.Vals, c.Undefined), func() interface{} {
			return map[string]interface{}{"names": len(c.Names), "pre": c.Pre, "steps": len(c.Steps), "final_keys": clip(fmt.Sprint(keys), 200), "fetcher": fetcher}
		})
	}
	return nil
}

func chunk(a []string, n int) [][]string {
	var out [][]string
	for len(a) > n {
		out = append(out, a[:n])
		a = a[n:]
	}
	return append(out, a)
}

func indexOf(a []string, s string) int {
	for i, x := range a {
		if x == s {
			return i
		}
	}
	return -1
}

func equalNormalised(got, want interface{}) bool {
	return m.EqualVal(got, want)
}

var propC11 = Prop[C11Case]{
	ID:    "C11",
	Rule:  "registration histories: 1..40 (sometimes 100..126) names, a pre-populated key map with distinct keys from {-32768, -3..3, 250..260, 32760..32767, random int16, small}, then GetOrRegisterKey / RegVarAndOp batches / repeated requests / ExtendConf of a base config holding further names, in a drawn order, names sometimes those of keywords and operators (if, let, map, in, and ...), optionally undefined-variable mode with names left unregistered; bindings of every raw type the documentation lists (int, int8..int32, uint8..uint64, int64, []int, []int32, []int64, []string, time.Time, Duration, bool, string) at extremes, and float64 values, which no rule normalises (they come back as they were bound). Oracle: after every step the key map is injective and no earlier assignment changed; (c_tuple v0 .. vn) and single-variable programs evaluate, through NewCtxFromVars (slice- or map-backed) and through the one-shot eval.Eval over the same layout, to the harness's own normalisation of the bound values. In undefined-variable mode one program is compiled before the registration steps and evaluated after them. Non-trivial = the final layout has a key < 0, = 0, = 255, = 256 or > 256, or GetOrRegisterKey had to fill a gap; distinct by the whole history",
	Gen:   genC11,
	Check: checkC11,
}

func TestC11(t *testing.T)       { Run(t, propC11) }
func TestC11Replay(t *testing.T) { Replay(t, propC11) }
