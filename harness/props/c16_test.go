package props

import (
	"fmt"
	"math"
	"sort"
	"strings"
	"testing"

	"github.com/onheap/eval"
	"pgregory.net/rapid"

	m "verifharness/model"
)

// C16 – reordering is cost-directed, stable and confined to and/or operands.

type C16Case struct {
	Tree  *m.Node          `json:"tree"`
	Bools map[string]bool  `json:"bools"`
	Ints  map[string]int64 `json:"ints"`
	Costs []CostEntry      `json:"costs,omitempty"`
	X     string           `json:"x"`
	Delta int              `json:"delta"`
	Src   string           `json:"src"`
}

type c16gen struct {
	t      *rapid.T
	nb, ni int
	nlit   int
}

func (g *c16gen) b() *m.Node { g.nb++; return m.Var(fmt.Sprintf("p%d", g.nb-1)) }
func (g *c16gen) i() *m.Node { g.ni++; return m.Var(fmt.Sprintf("q%d", g.ni-1)) }

func (g *c16gen) intExpr(d int) *m.Node {
	if d <= 0 || rapid.IntRange(0, 2).Draw(g.t, "ileaf") == 0 {
		if rapid.IntRange(0, 3).Draw(g.t, "ilit") == 0 {
			return m.Const(rapid.Int64Range(0, 9).Draw(g.t, "k"))
		}
		return g.i()
	}
	op := rapid.SampledFrom([]string{"+", "-", "*", "c_sum", "add"}).Draw(g.t, "iop")
	n := rapid.IntRange(2, 4).Draw(g.t, "iar")
	node := m.Op(op)
	for k := 0; k < n; k++ {
		node.Kids = append(node.Kids, g.intExpr(d-1))
	}
	return node
}

// operand draws one and/or operand from a few shapes over fresh variables, so that
// many operands have the same estimated cost while others differ.
func (g *c16gen) operand(d int) *m.Node {
	switch pickW(g.t, "shape", 5, 4, 2, 2, 2, 1, 1, 1, 1) {
	case 8:
		// a division (or remainder) by a variable that an operand written EARLIER mentions as well - the
		// guard idiom (and (!= d 0) (> (/ n d) 2)); to Reordering it is an operand like any other
		if g.ni == 0 {
			return m.Op("!=", g.i(), m.Const(int64(0)))
		}
		d := m.Var(fmt.Sprintf("q%d", rapid.IntRange(0, g.ni-1).Draw(g.t, "divisor")))
		return m.Op(rapid.SampledFrom([]string{">", "<", "="}).Draw(g.t, "divcmp"), m.Op(rapid.SampledFrom([]string{"/", "%", "div", "mod"}).Draw(g.t, "divop"), g.i(), d), m.Const(rapid.Int64Range(0, 3).Draw(g.t, "divk")))
	case 7:
		// a comparison of string literals whose TEXT is the name of a variable or operator used (and
		// maybe priced) elsewhere: the operand mentions neither
		pool := []string{"c_id", "variable", "operator", "and", ">", "=", "c_sum"}
		for k := 0; k < g.nb && k < 6; k++ {
			pool = append(pool, fmt.Sprintf("p%d", k))
		}
		for k := 0; k < g.ni && k < 3; k++ {
			pool = append(pool, fmt.Sprintf("q%d", k))
		}
		a := rapid.SampledFrom(pool).Draw(g.t, "litname")
		g.nlit++ // (the other literal is unique: operands are told apart by their text)
		return m.Op(rapid.SampledFrom([]string{"=", "eq", "!="}).Draw(g.t, "litcmp"), m.Const(a), m.Const(fmt.Sprintf("u%d", g.nlit)))
	case 0:
		return g.b()
	case 1:
		return m.Op(rapid.SampledFrom([]string{">", "<", ">=", "=", "gt"}).Draw(g.t, "cmp"), g.i(), m.Const(rapid.Int64Range(0, 3).Draw(g.t, "k")))
	case 2:
		return m.Op("c_id", g.b())
	case 3:
		switch rapid.IntRange(0, 3).Draw(g.t, "ifcond") {
		case 0: // a literal condition, or one that folds to a literal: the other branch is still part of the operand
			return m.If(m.Const(rapid.Bool().Draw(g.t, "ifconst")), g.b(), g.b())
		case 1:
			k := rapid.Int64Range(0, 1).Draw(g.t, "iffold")
			return m.If(m.Op("=", m.Const(int64(0)), m.Const(k)), g.b(), g.b())
		}
		return m.If(g.b(), g.b(), g.b())
	case 4:
		if d > 0 {
			switch rapid.IntRange(0, 3).Draw(g.t, "nestunder") {
			case 0: // an and/or group below a one-operand operator is an and/or group like any other
				return m.Op(rapid.SampledFrom([]string{"not", "!", "c_id"}).Draw(g.t, "unary"), g.boolNode(d-1, 4))
			case 1:
				return m.Op("c_id", m.Op("not", g.boolNode(d-1, 3)))
			}
			return g.boolNode(d-1, 4)
		}
		return g.b()
	case 5:
		return m.Op(rapid.SampledFrom([]string{">", "="}).Draw(g.t, "cmp2"), g.intExpr(2), g.intExpr(1))
	default:
		return m.Op(rapid.SampledFrom([]string{"not", "!"}).Draw(g.t, "not"), g.b())
	}
}

func (g *c16gen) boolNode(d, maxWidth int) *m.Node {
	op := rapid.SampledFrom([]string{"and", "or", "&", "||", "&&", "|"}).Draw(g.t, "boolop")
	n := rapid.IntRange(2, maxWidth).Draw(g.t, "width")
	node := m.Op(op)
	for k := 0; k < n; k++ {
		node.Kids = append(node.Kids, g.operand(d))
	}
	return node
}

func genC16(t *rapid.T) C16Case {
	g := &c16gen{t: t}
	width := rapid.IntRange(2, 12).Draw(t, "rootwidth")
	if rapid.Bool().Draw(t, "wide") {
		width = rapid.IntRange(13, depthMax(40, 60)).Draw(t, "rootwidth2")
	}
	var tree *m.Node
	switch rapid.IntRange(0, 5).Draw(t, "rootkind") {
	case 0: // and/or below a non-reorderable operator
		tree = m.Op("xor", g.boolNode(1, width), g.boolNode(1, 4))
	case 1:
		tree = m.If(g.boolNode(1, 4), g.boolNode(1, width), g.b())
	default:
		tree = g.boolNode(2, width)
	}
	if maxOperands(flattenModel(tree)) > 127 { // would be rejected under ReduceNesting (C09's business); practically never
		tree = g.boolNode(1, 12)
	}
	c := C16Case{Tree: tree, Bools: map[string]bool{}, Ints: map[string]int64{}}
	allSame := rapid.IntRange(0, 2).Draw(t, "allsame")
	for _, n := range tree.VarNames() {
		if n[0] == 'p' {
			switch allSame {
			case 0:
				c.Bools[n] = true
			case 1:
				c.Bools[n] = false
			default:
				c.Bools[n] = rapid.Bool().Draw(t, "bv")
			}
		} else {
			c.Ints[n] = rapid.Int64Range(0, 4).Draw(t, "iv")
		}
	}
	names := costNames(tree)
	pool := []float64{1, 0, -1, 5, 7, 10, 50, 1000, -100, 2, 3}
	switch rapid.IntRange(0, 7).Draw(t, "hugecosts") {
	case 0:
		// very large entries, pairwise distinct and exact in float64 (sums stay below 2^53)
		pool = []float64{1, 0, 1e13, 1e14, 3e12, -1e13, 5, 2e12, 1000, 1e14, 1e13}
	case 1:
		// fractional entries (multiples of 1/8, so every sum is exact): costs that differ by less than 1
		pool = []float64{0.5, 0.25, 5.5, 4.75, 6, -0.75, 1.125, 7.375, 2.5, 0.125, 1000.5, 5.25, 5.75}
	case 2:
		// astronomic entries, far beyond any integer type (sums are no longer exact: the cost model
		// of the tie law is not consulted for these cases, the model-free laws are)
		pool = []float64{1, 0, 1e30, 1e25, -1e30, 3e19, 1e19, 5, -2e19, 1e22, 7}
	}
	for _, n := range names {
		p := 8
		if n == "variable" || n == "operator" {
			p = 2
		}
		if rapid.IntRange(0, p).Draw(t, "has_"+n) == 0 {
			c.Costs = append(c.Costs, CostEntry{Name: n, C: fstr(rapid.SampledFrom(pool).Draw(t, "cost"))})
		}
	}
	// now and then a plain variable is priced exactly like a sibling call (a tie between shapes)
	if rapid.IntRange(0, 2).Draw(t, "maketie") == 0 {
		var nodes []*m.Node
		tree.Walk(func(x *m.Node) {
			if x.Kind == m.KOp && (m.IsAnd(x.Name) || m.IsOr(x.Name)) {
				nodes = append(nodes, x)
			}
		})
		nd := nodes[rapid.IntRange(0, len(nodes)-1).Draw(t, "tienode")]
		var plain, other []*m.Node
		for _, k := range nd.Kids {
			if k.Kind == m.KVar {
				plain = append(plain, k)
			} else if k.Kind != m.KConst {
				other = append(other, k)
			}
		}
		if len(plain) > 0 && len(other) > 0 {
			pv := plain[rapid.IntRange(0, len(plain)-1).Draw(t, "tieplain")]
			q := other[rapid.IntRange(0, len(other)-1).Draw(t, "tieother")]
			cm := costMap(c.Costs)
			delete(cm, pv.Name)
			want := modelCost(q, cm, rapid.Bool().Draw(t, "tiefast")) - 5
			var kept []CostEntry
			for _, ce := range c.Costs {
				if ce.Name != pv.Name {
					kept = append(kept, ce)
				}
			}
			c.Costs = append(kept, CostEntry{Name: pv.Name, C: fstr(want)})
		}
	}
	var concrete []string
	for _, n := range names {
		if n != "variable" && n != "operator" {
			concrete = append(concrete, n)
		}
	}
	c.X = rapid.SampledFrom(concrete).Draw(t, "x")
	c.Delta = rapid.SampledFrom([]int{1, 5, 1000}).Draw(t, "delta")
	// X always has an explicit entry, so that "raise the cost of X by delta" is exact and
	// does not depend on the engine's built-in default costs
	hasX := false
	for _, ce := range c.Costs {
		if ce.Name == c.X {
			hasX = true
		}
	}
	if !hasX {
		c.Costs = append(c.Costs, CostEntry{Name: c.X, C: fstr(rapid.SampledFrom(pool).Draw(t, "cost_x"))})
	}
	c.Src = m.Render(tree)
	return c
}

// canonBool is the text of a tree with and/or operands sorted: equal iff the
// trees are equal up to permutation of and/or operands.
func canonBool(n *m.Node) string {
	if n.IsLeaf() {
		return m.Render(n)
	}
	parts := make([]string, len(n.Kids))
	for i, k := range n.Kids {
		parts[i] = canonBool(k)
	}
	if n.Kind == m.KOp && (m.IsAnd(n.Name) || m.IsOr(n.Name)) {
		sort.Strings(parts)
	}
	return "(" + n.Name + " " + strings.Join(parts, " ") + ")"
}

// shapeKey erases variable names (keeping their cost entry) so that operands equal
// up to renaming of equally-priced variables get the same key.
func shapeKey(n *m.Node, costs map[string]string) string {
	switch n.Kind {
	case m.KVar:
		if c, ok := costs[n.Name]; ok {
			return "V{" + c + "}"
		}
		return "V"
	case m.KConst:
		return "C" // every constant has the same cost
	}
	parts := make([]string, len(n.Kids))
	for i, k := range n.Kids {
		parts[i] = shapeKey(k, costs)
	}
	if n.Kind == m.KOp && (m.IsAnd(n.Name) || m.IsOr(n.Name)) {
		sort.Strings(parts)
	}
	return "(" + n.Name + " " + strings.Join(parts, " ") + ")"
}

// matchBool pairs the nodes of two trees that are equal up to and/or permutation
// and calls f on every pair of corresponding and/or nodes.
func matchBool(a, b *m.Node, f func(a, b *m.Node)) {
	if a.IsLeaf() {
		return
	}
	if a.Kind == m.KOp && (m.IsAnd(a.Name) || m.IsOr(a.Name)) {
		f(a, b)
		used := make([]bool, len(b.Kids))
		for _, ka := range a.Kids {
			ca := canonBool(ka)
			for j, kb := range b.Kids {
				if !used[j] && canonBool(kb) == ca {
					used[j] = true
					matchBool(ka, kb, f)
					break
				}
			}
		}
		return
	}
	for i := range a.Kids {
		matchBool(a.Kids[i], b.Kids[i], f)
	}
}

func (c *C16Case) universe() *Universe {
	u := &Universe{RegMode: RegGetOrReg}
	for _, n := range sortedKeys(c.Bools) {
		u.Vars = append(u.Vars, VarDecl{Name: n, Ty: m.TBool, Val: m.V{X: c.Bools[n]}})
	}
	for _, n := range sortedKeys(c.Ints) {
		u.Vars = append(u.Vars, VarDecl{Name: n, Ty: m.TInt, Val: m.V{X: c.Ints[n]}})
	}
	return u
}

// matchOccurrences returns, for every element of from, the index in to of the operand with the same
// canonical text, matching the k-th occurrence of a text with its k-th occurrence (-1: no partner).
func matchOccurrences(from, to []*m.Node) []int {
	where := map[string][]int{}
	for j, k := range to {
		c := canonBool(k)
		where[c] = append(where[c], j)
	}
	out := make([]int, len(from))
	for i, k := range from {
		c := canonBool(k)
		if l := where[c]; len(l) > 0 {
			out[i], where[c] = l[0], l[1:]
		} else {
			out[i] = -1
		}
	}
	return out
}

func withCost(costs []CostEntry, name string, f func(old float64, had bool) float64) []CostEntry {
	out := make([]CostEntry, 0, len(costs)+1)
	done := false
	for _, ce := range costs {
		if ce.Name == name {
			out = append(out, CostEntry{Name: name, C: fstr(f(ce.F(), true))})
			done = true
		} else {
			out = append(out, ce)
		}
	}
	if !done {
		out = append(out, CostEntry{Name: name, C: fstr(f(0, false))})
	}
	return out
}

func checkC16(c C16Case, r *Rec) *Violation {
	u := c.universe()
	src := m.Render(c.Tree)
	costTag := map[string]string{}
	for _, ce := range c.Costs {
		costTag[ce.Name] = ce.C
	}
	// the way the option subset reaches the compiler rotates with the case: written into the map, a
	// directive over a config that says the opposite (Reordering explicitly off in the config, switched
	// on in the source, and vice versa), options set on a CopyConfig / ExtendConf copy of such a config
	how := []int{HowMapAll, HowDirectiveOpp, HowCopySet, HowExtendSet, HowMapSparse, HowOptionFn, HowMapSparse, HowExtendKeep, HowCopyKeep}[hash64(src)%9]
	r.Class(fmt.Sprintf("options-expressed-in-way-%d", how))
	// ... and so does event mode (none, ReportEvent, Debug): reporting events changes no program (C12)
	events := int(hash64(src)/7) % 3
	compile := func(mask int, costs []CostEntry) (*CfgRun, *Violation) {
		return runCfg("C16", u, src, Build{Mask: mask, How: how, Variant: int(hash64(src) % uint64(directiveVariants)), Costs: costs, Events: events})
	}
	widest, equalGroups, crossTies := 0, 0, 0
	for base := 0; base < 8; base++ {
		off, v := compile(base, c.Costs)
		if v != nil {
			return v
		}
		on, v := compile(base|MaskReorder, c.Costs)
		if v != nil {
			return v
		}
		where := func() string {
			return fmt.Sprintf("other optimizations=%s costs=%v X=%s delta=%d\nsrc=%s\nreordering off=%s\nreordering on =%s", maskName(base), c.Costs, c.X, c.Delta, src, m.Render(off.DTree), m.Render(on.DTree))
		}
		// (i) only and/or operands are permuted
		if canonBool(off.DTree) != canonBool(on.DTree) {
			return Violf("C16: Reordering changed more than the order of and/or operands\n%s", where())
		}
		// (ii) stability: operands of equal shape (equal up to renaming of equally priced variables) keep source order
		var bad *Violation
		matchBool(off.DTree, on.DTree, func(a, b *m.Node) {
			if bad != nil {
				return
			}
			if len(a.Kids) > widest {
				widest = len(a.Kids)
			}
			// textually identical operands (two groups that both fold to false, say) cannot be told
			// apart: the k-th occurrence in the source is matched with the k-th occurrence in the
			// reordered program, the only assignment under which identical operands "keep their order"
			posOf := matchOccurrences(a.Kids, b.Kids)
			last := map[string]int{}
			lastText := map[string]string{}
			groups := map[string]int{}
			for i, ka := range a.Kids {
				key := shapeKey(ka, costTag)
				groups[key]++
				p, ok := posOf[i], posOf[i] >= 0
				if !ok {
					bad = Violf("C16: operand %s lost by Reordering\n%s", m.Render(ka), where())
					return
				}
				if prev, seen := last[key]; seen && p < prev {
					bad = Violf("C16: operands of equal estimated cost do not keep source order: %s was before %s in the source\n%s", lastText[key], m.Render(ka), where())
					return
				}
				last[key], lastText[key] = p, m.Render(ka)
			}
			g := 0
			for _, n := range groups {
				if n >= 2 {
					g++
				}
			}
			if len(a.Kids) >= 13 && g >= 2 && g > equalGroups {
				equalGroups = g
			}
		})
		if bad != nil {
			return bad
		}
		// (ii') ties between operands of different shape, by the calibrated cost model (see c16_costmodel.go)
		costModel.calibrate()
		astronomic := false
		for _, ce := range c.Costs {
			if math.Abs(ce.F()) >= 1e15 {
				astronomic = true
			}
		}
		if costModel.isValid() && !astronomic {
			cm := costMap(c.Costs)
			fast := base&MaskFast != 0
			tieSeen := false
			matchBool(off.DTree, on.DTree, func(a, b *m.Node) {
				if bad != nil || !costModel.isValid() {
					return
				}
				srcOf := matchOccurrences(b.Kids, a.Kids) // position in the source of every reordered operand (duplicates: k-th with k-th)
				strict := 0
				for i := 0; i+1 < len(b.Kids); i++ {
					x, y := b.Kids[i], b.Kids[i+1]
					cx, cy := modelCost(x, cm, fast), modelCost(y, cm, fast)
					switch {
					case cx > cy:
						costModel.invalidate(fmt.Sprintf("%s (model cost %v) is ordered before %s (model cost %v) under costs %v", m.Render(x), cx, m.Render(y), cy, c.Costs))
						return
					case cx < cy:
						strict++
					default:
						if shapeKey(x, costTag) != shapeKey(y, costTag) {
							tieSeen = true
						}
						if costModel.usable() && srcOf[i] >= 0 && srcOf[i+1] >= 0 && srcOf[i] > srcOf[i+1] {
							bad = Violf("C16: operands of equal estimated cost (%v) do not keep source order: %s was written before %s\n%s", cx, m.Render(y), m.Render(x), where())
							return
						}
					}
				}
				costModel.addStrict(strict)
			})
			if bad != nil {
				return bad
			}
			if tieSeen {
				crossTies++
			}
		}
		// (v) behaviour follows the dump: effects = left-to-right short-circuit evaluation of the dumped program
		if !MatchTrace(on.Trace, on.RefTrace) || (on.RefErr != m.ErrOptionalFetch && !Agrees(on.Out, on.RefVal, on.RefErr)) {
			return Violf("C16: the evaluation order is not the order Dump shows\n%s\nengine=%v %v\nreference=%s %v", where(), on.Out, m.TraceStrings(on.Trace), refString(on.RefVal, on.RefErr), m.TraceStrings(on.RefTrace))
		}

		// (iii) raising the cost of X never moves an operand mentioning X ahead of one that does not
		hadEntry := false
		raised := withCost(c.Costs, c.X, func(old float64, had bool) float64 {
			hadEntry = had
			return old + float64(c.Delta)
		})
		if !hadEntry {
			continue // hand-written case without an entry for X: the raise would depend on built-in defaults
		}
		if base == int(hash64(src)%8) {
			foreignActivity(int(hash64(src) % 1000)) // (other cost entries for the same names)
		}
		onR, v := compile(base|MaskReorder, raised)
		if v != nil {
			return v
		}
		if canonBool(onR.DTree) != canonBool(on.DTree) {
			return Violf("C16: changing a cost changed more than the order of and/or operands\n%s\nraised=%s", where(), m.Render(onR.DTree))
		}
		matchBool(on.DTree, onR.DTree, func(a, b *m.Node) {
			if bad != nil {
				return
			}
			posB := matchOccurrences(a.Kids, b.Kids) // identical operands: k-th occurrence with k-th occurrence
			for i, p := range a.Kids {               // p after q under M ...
				if !p.Mentions(c.X) {
					continue
				}
				for iq, q := range a.Kids[:i] {
					if q.Mentions(c.X) {
						continue
					}
					if posB[i] >= 0 && posB[iq] >= 0 && posB[i] < posB[iq] { // ... and before q under M[X += delta]
						bad = Violf("C16: raising the cost of %s by %d moved %s ahead of %s, which does not mention it\n%s\nraised cost=%s", c.X, c.Delta, m.Render(p), m.Render(q), where(), m.Render(onR.DTree))
						return
					}
				}
			}
		})
		if bad != nil {
			return bad
		}
		// (vii) entries for names the program does not contain - other spellings of its operators included -
		// price nothing: the program is the same with and without them
		{
			used := map[string]bool{}
			c.Tree.Walk(func(x *m.Node) {
				if x.Kind == m.KVar || x.Kind == m.KOp {
					used[x.Name] = true
				}
				if x.Kind == m.KIf {
					used["if"], used["fi"] = true, true
				}
				if b, isBool := x.Val.(bool); x.Kind == m.KConst && isBool {
					used[fmt.Sprint(b)] = true
				}
			})
			extra := append([]CostEntry{}, c.Costs...)
			for _, n := range []string{"zz_unused", "p99", "and", "or", "&", "&&", "|", "||", "not", "!", "eq", "=", "==", "ne", "!=", "gt", ">", "lt", "<", "ge", ">=", "le", "<=", "add", "+", "sub", "-", "mul", "*", "if", "fi", "true", "c_id", "c_sum"} {
				if !used[n] && costTag[n] == "" {
					extra = append(extra, CostEntry{Name: n, C: fstr(float64(700 + 13*len(extra)))})
				}
			}
			onX, v := compile(base|MaskReorder, extra)
			if v != nil {
				return v
			}
			if onX.Dump != on.Dump {
				return Violf("C16: cost entries for names that do not occur in the program changed it\n%s\nwith %d extra entries (%v ...)=%s", where(), len(extra)-len(c.Costs), extra[len(c.Costs):min(len(extra), len(c.Costs)+6)], m.Render(onX.DTree))
			}
		}
		// (iv) a huge cost puts every operand mentioning X after all that do not; the others keep their order
		hugeCost := 1e12
		for _, ce := range c.Costs {
			if math.Abs(ce.F()) >= 1e9 && hugeCost < 1e18 {
				hugeCost = 1e18 // "sufficiently large" is relative to what the other entries can add up to
			}
			if math.Abs(ce.F()) >= 1e15 {
				hugeCost = 1e36
			}
		}
		huge := withCost(c.Costs, c.X, func(float64, bool) float64 { return hugeCost })
		onH, v := compile(base|MaskReorder, huge)
		if v != nil {
			return v
		}
		if canonBool(onH.DTree) != canonBool(on.DTree) {
			return Violf("C16: changing a cost changed more than the order of and/or operands\n%s\nhuge=%s", where(), m.Render(onH.DTree))
		}
		matchBool(on.DTree, onH.DTree, func(a, b *m.Node) {
			if bad != nil {
				return
			}
			var an, bn []string
			seenMention := false
			for _, k := range b.Kids {
				if k.Mentions(c.X) {
					seenMention = true
					continue
				}
				if seenMention {
					bad = Violf("C16: with cost(%s)=%g the operand %s, which does not mention it, is evaluated after one that does\n%s\nhuge cost=%s", c.X, hugeCost, m.Render(k), where(), m.Render(onH.DTree))
					return
				}
				bn = append(bn, canonBool(k))
			}
			for _, k := range a.Kids {
				if !k.Mentions(c.X) {
					an = append(an, canonBool(k))
				}
			}
			if strings.Join(an, "\x00") != strings.Join(bn, "\x00") {
				bad = Violf("C16: with cost(%s)=%g the operands that do not mention it changed their relative order\n%s\nhuge cost=%s", c.X, hugeCost, where(), m.Render(onH.DTree))
			}
		})
		if bad != nil {
			return bad
		}
	}

	// evidence
	mixed, pair := false, false
	c.Tree.Walk(func(x *m.Node) {
		if x.Kind == m.KOp && (m.IsAnd(x.Name) || m.IsOr(x.Name)) {
			shapes := map[string]bool{}
			men, non := false, false
			for _, k := range x.Kids {
				shapes[shapeKey(k, costTag)] = true
				if k.Mentions(c.X) {
					men = true
				} else {
					non = true
				}
			}
			if len(shapes) >= 2 {
				mixed = true
			}
			if men && non {
				pair = true
			}
		}
	})
	if widest >= 13 {
		r.Class("and-or-with->=13-operands")
	}
	if crossTies > 0 {
		r.Class("tie-between-operands-of-different-shape")
	}
	if costModel.usable() {
		r.Class("cost-model:calibrated-and-consistent")
	} else if !costModel.isValid() {
		r.Class("cost-model:switched-off(" + clip(costModel.why, 80) + ")")
	}
	if equalGroups >= 2 {
		r.Class("stability:>=13-operands-and->=2-equal-cost-groups")
	}
	if mixed && pair {
		r.NonTrivial(src+fmt.Sprint(c.Costs, c.X, c.Delta), func() interface{} {
			return map[string]interface{}{"src": clip(src, 300), "costs": c.Costs, "x": c.X, "delta": c.Delta, "widest_and_or": widest}
		})
	}
	return nil
}

var _ = eval.Reordering

var propC16 = Prop[C16Case]{
	ID:    "C16",
	Rule:  "trees with wide and/or nodes (2..40 operands, 60 thorough) whose operands are drawn from a few shapes over pairwise distinct variables (so identity is trackable and many operands have equal estimated cost while others differ), nested and/or, and/or below xor / if, arithmetic and comparison operators with operands of different cost; integer-valued cost maps with per-name, class-default and negative entries; a name X and delta in {1,5,1000}. Metamorphic oracles, for all 8 settings of the other three optimizations: (i) Dump with Reordering on = Dump with it off up to permutation of and/or operands; (ii) operands equal up to renaming of equally priced variables keep source order; (iii) under M[X+=delta] no operand mentioning X overtakes one that does not; (iv) under M[X:=1e12] (1e18 / 1e36 when other entries are very large: one case in eight draws entries of 1e12..1e14, one in eight fractional entries - multiples of 1/8 - and one in eight entries of 1e19..1e30) all non-mentioning operands precede all mentioning ones and keep their relative order; (v) effects and result = short-circuit evaluation of the dumped order; (vii) entries for names that do not occur in the program (other spellings of its operators, unused variables, keywords) change nothing. Non-trivial = an and/or node with >= 2 operand shapes and at least one (mentions X, does not) pair; distinct by source + costs + X",
	Gen:   genC16,
	Check: checkC16,
}

func TestC16(t *testing.T)       { Run(t, propC16) }
func TestC16Replay(t *testing.T) { Replay(t, propC16) }
