package props

import (
	"fmt"
	"math"
	"strconv"
	"strings"
	"testing"

	"github.com/onheap/eval"
	"pgregory.net/rapid"

	m "verifharness/model"
)

// C17 – in / overlap are set membership / intersection for lists of any size.

type C17Case struct {
	Op     string `json:"op"`   // in | overlap
	A      m.V    `json:"a"`    // probe (in) or left list (overlap)
	B      m.V    `json:"b"`    // list / set (in) or right list (overlap)
	ALit   bool   `json:"alit"` // pass A as a literal (else as a variable)
	BLit   bool   `json:"blit"`
	Infix  bool   `json:"infix,omitempty"` // written in infix notation: in(a, [..]) / overlap([..], [..])
	Const  bool   `json:"const,omitempty"` // operands that are not literals are published through ConstantMap instead of being bound as variables
	Origin string `json:"origin,omitempty"`
}

func hasLiteralForm(v interface{}) bool {
	switch x := v.(type) {
	case int64, string:
		return true
	case []int64:
		return len(x) > 0 // a typed empty int list has no literal
	case []string:
		return true
	}
	return false
}

func elemStr(i int64) string { return "e" + strconv.FormatInt(i, 10) }

// longElems maps the short element names to strings of 64..90 bytes (same equalities)
func longElems(l []string) []string {
	out := make([]string, len(l))
	for i, s := range l {
		out[i] = s + strings.Repeat("-long-element-padding", 3+len(s)%2) + s
	}
	return out
}

// genListPair builds two lists over a pool sized so that intersections are frequent but not certain.
func genListPair(t *rapid.T, strs bool) (interface{}, interface{}) {
	var la, lb int
	switch pickW(t, "lens", 3, 3, 1) {
	case 0: // around the 100-element switch
		total := rapid.IntRange(95, 105).Draw(t, "total")
		la = rapid.IntRange(0, total).Draw(t, "la")
		lb = total - la
	case 1:
		la, lb = rapid.IntRange(0, 12).Draw(t, "la"), rapid.IntRange(0, 12).Draw(t, "lb")
	default:
		la, lb = rapid.IntRange(0, 300).Draw(t, "la"), rapid.IntRange(0, 300).Draw(t, "lb")
	}
	mode := pickW(t, "overlapmode", 2, 3, 2)
	pool := int64(la+lb)*int64(rapid.SampledFrom([]int{1, 2, 8}).Draw(t, "poolx")) + 2
	a, b := make([]int64, la), make([]int64, lb)
	switch mode {
	case 0: // random over a pool (duplicates likely)
		for i := range a {
			a[i] = rapid.Int64Range(0, pool).Draw(t, "ea")
		}
		for i := range b {
			b[i] = rapid.Int64Range(0, pool).Draw(t, "eb")
		}
	default: // disjoint (a even, b odd); mode 1 plants one common element at an end of each list
		for i := range a {
			a[i] = 2 * rapid.Int64Range(0, pool).Draw(t, "ea")
		}
		for i := range b {
			b[i] = 2*rapid.Int64Range(0, pool).Draw(t, "eb") + 1
		}
		if mode == 1 && la > 0 && lb > 0 {
			pa := []int{0, la - 1, la / 2}[rapid.IntRange(0, 2).Draw(t, "posa")]
			pb := []int{0, lb - 1, lb / 2}[rapid.IntRange(0, 2).Draw(t, "posb")]
			// the one common element: an ordinary value, or one a hand-made table might reserve
			common := rapid.SampledFrom([]int64{-7, -7, math.MinInt64, math.MaxInt64, 0, -1, math.MinInt32, 1 << 32, -8}).Draw(t, "common")
			a[pa] = common
			b[pb] = common
		}
	}
	if !strs {
		return a, b
	}
	sa, sb := make([]string, la), make([]string, lb)
	for i, v := range a {
		sa[i] = elemStr(v)
	}
	for i, v := range b {
		sb[i] = elemStr(v)
	}
	if la > 0 && lb > 0 && rapid.IntRange(0, 7).Draw(t, "emptyelem") == 0 {
		// the empty string is an element like any other: at the head or the tail of either list, shared or not
		pa := []int{0, la - 1}[rapid.IntRange(0, 1).Draw(t, "ee_pa")]
		pb := []int{0, lb - 1}[rapid.IntRange(0, 1).Draw(t, "ee_pb")]
		switch rapid.IntRange(0, 2).Draw(t, "ee_where") {
		case 0:
			sa[pa], sb[pb] = "", ""
		case 1:
			sa[pa] = ""
		default:
			sb[pb] = ""
		}
		return sa, sb
	}
	switch rapid.IntRange(0, 5).Draw(t, "longelems") {
	case 0:
		return longElems(sa), longElems(sb)
	case 1:
		// elements whose text is delicate for a lexer: they END (or begin) with a backslash, a blank, a
		// bracket, a semicolon ... (the same equalities: one affix for every element)
		affix := rapid.SampledFrom([]string{"\\", " ", "\n", "(", ")", ";", ",", "'", "\u00e9", "\\\\", "[", "\t"}).Draw(t, "affix")
		front := rapid.Bool().Draw(t, "affixfront")
		for _, l := range [][]string{sa, sb} {
			for i := range l {
				if front {
					l[i] = affix + l[i]
				} else {
					l[i] += affix
				}
			}
		}
	}
	return sa, sb
}

func genC17(t *rapid.T) C17Case {
	c := C17Case{ALit: rapid.Bool().Draw(t, "alit"), BLit: rapid.Bool().Draw(t, "blit"), Infix: rapid.IntRange(0, 3).Draw(t, "infix") == 0}
	strs := rapid.Bool().Draw(t, "strs")
	if rapid.Bool().Draw(t, "overlap") {
		c.Op = "overlap"
		a, b := genListPair(t, strs)
		if !strs && rapid.IntRange(0, 9).Draw(t, "smallids") == 0 {
			// small non-negative "ids" (0..63) on one side, ids of any size on the other - some of them equal to a
			// small id plus a multiple of 64 (no common element unless one is planted), on both sides of the switch
			ls := rapid.SampledFrom([]int{1, 3, 20, 64}).Draw(t, "si_ls")
			ll := rapid.SampledFrom([]int{5, 40, 97, 99, 120, 200}).Draw(t, "si_ll")
			small, large := make([]int64, ls), make([]int64, ll)
			for i := range small {
				small[i] = int64((i*7 + 1) % 64)
			}
			for i := range large {
				large[i] = small[i%ls] + 64*int64(1+i%5)
			}
			if rapid.IntRange(0, 2).Draw(t, "si_common") == 0 {
				large[rapid.IntRange(0, ll-1).Draw(t, "si_at")] = small[rapid.IntRange(0, ls-1).Draw(t, "si_which")]
			}
			a, b = small, large
			if rapid.Bool().Draw(t, "si_swap") {
				a, b = b, a
			}
		} else if !strs && rapid.IntRange(0, 4).Draw(t, "sortedpair") == 0 {
			// two SORTED integer lists (ascending; sometimes both descending) that touch, interleave or
			// miss each other: ranges sharing exactly one end element, adjacent ranges, evens against odds,
			// a one-element list holding the other's largest / smallest element
			la := rapid.SampledFrom([]int{1, 2, 30, 60, 99, 100, 121}).Draw(t, "sp_la")
			lb := rapid.SampledFrom([]int{1, 2, 40, 50, 80, 101}).Draw(t, "sp_lb")
			base := rapid.SampledFrom([]int64{0, -50, 1000, math.MaxInt64 - 400, math.MinInt64}).Draw(t, "sp_base")
			sa, sb := make([]int64, la), make([]int64, lb)
			kind := rapid.IntRange(0, 5).Draw(t, "sp_kind")
			for i := range sa {
				sa[i] = base + int64(i)
			}
			for i := range sb {
				switch kind {
				case 0: // b starts at a's largest element
					sb[i] = sa[la-1] + int64(i)
				case 1: // b starts right behind a
					sb[i] = sa[la-1] + 1 + int64(i)
				case 2: // b ends at a's smallest element
					sb[i] = sa[0] - int64(lb-1) + int64(i)
				case 3: // b ends right before a
					sb[i] = sa[0] - int64(lb) + int64(i)
				case 4: // b inside a's range, every second value (shares them all)
					sb[i] = sa[0] + int64(2*i)
				default: // evens against odds
					sa[i%la] = base + int64(2*(i%la))
					sb[i] = base + int64(2*i) + 1
				}
			}
			if kind == 5 {
				for i := range sa {
					sa[i] = base + int64(2*i)
				}
			}
			if rapid.IntRange(0, 3).Draw(t, "sp_desc") == 0 {
				for _, l := range [][]int64{sa, sb} {
					for i, j := 0, len(l)-1; i < j; i, j = i+1, j-1 {
						l[i], l[j] = l[j], l[i]
					}
				}
			}
			a, b = sa, sb
			if rapid.Bool().Draw(t, "sp_swap") {
				a, b = b, a
			}
		}
		switch pickW(t, "special", 8, 1, 1, 1, 1) {
		case 1: // empty literal on one side (denotes the empty string list)
			if rapid.Bool().Draw(t, "emptyleft") {
				a = []string{}
			} else {
				b = []string{}
			}
		case 2: // element type mismatch
			_, b = genListPair(t, !strs)
		case 3: // not a list at all
			b = rapid.SampledFrom([]interface{}{int64(1), "a", true}).Draw(t, "notlist")
		case 4:
			if rapid.Bool().Draw(t, "swapab") {
				a, b = b, a
			}
		}
		c.A, c.B = m.V{X: a}, m.V{X: b}
	} else {
		c.Op = "in"
		l, _ := genListPair(t, strs)
		var probe interface{}
		n := 0
		if !strs && rapid.IntRange(0, 3).Draw(t, "run") == 0 {
			// structured integer lists: a run start..start+n-1, ascending or descending or with step 2,
			// optionally damaged - one element replaced by a copy of its neighbour (a duplicate and a gap:
			// still sorted, still last-first = n-1) or removed; probed at the gap, the ends and just outside
			n := rapid.IntRange(1, 45).Draw(t, "run_n")
			start := rapid.SampledFrom([]int64{1, 0, -20, 100, math.MaxInt64 - 50, math.MinInt64}).Draw(t, "run_start")
			step := rapid.SampledFrom([]int64{1, 1, 1, 2, -1}).Draw(t, "run_step")
			if step < 0 {
				start += int64(n)
			}
			run := make([]int64, n)
			for i := range run {
				run[i] = start + int64(i)*step
			}
			gap := run[0] - step
			if n >= 3 {
				switch rapid.IntRange(0, 2).Draw(t, "run_damage") {
				case 1:
					k := rapid.IntRange(1, n-2).Draw(t, "run_k")
					gap = run[k]
					run[k] = run[k-1+2*rapid.IntRange(0, 1).Draw(t, "run_side")]
				case 2:
					k := rapid.IntRange(1, n-2).Draw(t, "run_k")
					gap = run[k]
					run = append(run[:k:k], run[k+1:]...)
				}
			}
			pr := []int64{gap, run[0], run[len(run)-1], run[0] - step, run[len(run)-1] + step, run[len(run)/2]}[rapid.IntRange(0, 5).Draw(t, "run_probe")]
			c.A, c.B = m.V{X: pr}, m.V{X: run}
			if rapid.Bool().Draw(t, "run_lit") {
				c.ALit, c.BLit = true, true
			}
			return c
		}
		switch x := l.(type) {
		case []int64:
			n = len(x)
			probe = int64(-99)
			if n > 0 {
				switch rapid.IntRange(0, 3).Draw(t, "probe") {
				case 0:
					probe = x[0]
				case 1:
					probe = x[n-1]
				case 2:
					probe = x[n/2]
				}
			}
		case []string:
			n = len(x)
			probe = "absent"
			if n > 0 {
				switch rapid.IntRange(0, 3).Draw(t, "probe") {
				case 0:
					probe = x[0]
				case 1:
					probe = x[n-1]
				case 2:
					probe = x[n/2]
				}
			}
		}
		switch pickW(t, "special", 6, 2, 1, 1, 1, 1) {
		case 5: // pre-built set AND a probe of the other element type (or no scalar at all): an error, not false
			zero := rapid.Bool().Draw(t, "setzero")
			switch x := l.(type) {
			case []int64:
				s := map[int64]struct{}{}
				for _, e := range x {
					s[e] = struct{}{}
				}
				if zero {
					s[0] = struct{}{}
				}
				l = s
				probe = rapid.SampledFrom([]interface{}{"e1", "", "0", true, false}).Draw(t, "setprobe_i")
			case []string:
				s := map[string]struct{}{}
				for _, e := range x {
					s[e] = struct{}{}
				}
				if zero {
					s[""] = struct{}{}
				}
				l = s
				probe = rapid.SampledFrom([]interface{}{int64(1), int64(0), true, false}).Draw(t, "setprobe_s")
			}
		case 1: // pre-built set
			switch x := l.(type) {
			case []int64:
				s := map[int64]struct{}{}
				for _, e := range x {
					s[e] = struct{}{}
				}
				l = s
			case []string:
				s := map[string]struct{}{}
				for _, e := range x {
					s[e] = struct{}{}
				}
				l = s
			}
		case 2: // the empty list literal
			l = []string{}
		case 3: // element type mismatch
			if _, isInt := probe.(int64); isInt {
				probe = "e1"
			} else {
				probe = int64(1)
			}
		case 4: // not a scalar probe / not a list
			if rapid.Bool().Draw(t, "badprobe") {
				probe = rapid.SampledFrom([]interface{}{true, []int64{1}}).Draw(t, "probeval")
			} else {
				l = rapid.SampledFrom([]interface{}{int64(1), "a"}).Draw(t, "notlist")
			}
		}
		c.A, c.B = m.V{X: probe}, m.V{X: l}
	}
	// independently of everything above: now and then one operand is an empty list of either element
	// type - next to whatever the other one is, a non-list included
	if rapid.IntRange(0, 9).Draw(t, "emptyany") == 0 {
		var e interface{} = []string{}
		if rapid.Bool().Draw(t, "emptyints") {
			e = []int64{}
		}
		if c.Op == "overlap" && rapid.Bool().Draw(t, "emptyleft2") {
			c.A = m.V{X: e}
		} else {
			c.B = m.V{X: e}
		}
	}
	c.Const = rapid.IntRange(0, 4).Draw(t, "asconst") == 0
	return c
}

func c17Expr(c C17Case, swap bool) (string, map[string]interface{}) {
	a, b := c.A.X, c.B.X
	alit, blit := c.ALit, c.BLit
	if swap {
		a, b, alit, blit = b, a, blit, alit
	}
	vars := map[string]interface{}{}
	operand := func(name string, v interface{}, lit bool) string {
		if lit && hasLiteralForm(v) {
			s := m.RenderVal(v)
			if c.Infix && isList(v) {
				return "[" + s[1:len(s)-1] + "]"
			}
			return s
		}
		vars[name] = v
		return name
	}
	if c.Infix {
		return c.Op + "(" + operand("va", a, alit) + ", " + operand("vb", b, blit) + ")", vars
	}
	return "(" + c.Op + " " + operand("va", a, alit) + " " + operand("vb", b, blit) + ")", vars
}

func listLen(v interface{}) int {
	switch x := v.(type) {
	case []int64:
		return len(x)
	case []string:
		return len(x)
	case map[int64]struct{}:
		return len(x)
	case map[string]struct{}:
		return len(x)
	}
	return -1
}

func c17Eval(src string, vars map[string]interface{}, mask int, infix bool, opts ...bool) (Outcome, Outcome) {
	consts := len(opts) > 0 && opts[0]
	try := len(opts) > 1 && opts[1]
	cc := eval.NewConfig()
	if infix {
		eval.EnableInfixNotation(cc)
	}
	for i, o := range allOpts {
		cc.CompileOptions[o] = mask&(1<<i) != 0
	}
	cc.VariableKeyMap["va"] = 1
	cc.VariableKeyMap["vb"] = 2
	if consts {
		for n, v := range vars {
			cc.ConstantMap[n] = v
		}
	}
	e, co := SafeCompile(cc, src)
	if co.Panic != nil || co.Err != nil {
		return co, co
	}
	if try {
		return co, Safe(func() (eval.Value, error) { return e.TryEval(eval.NewCtxFromVars(cc, vars)) })
	}
	return co, Safe(func() (eval.Value, error) { return e.Eval(eval.NewCtxFromVars(cc, vars)) })
}

func checkC17(c C17Case, r *Rec) *Violation {
	f, _ := m.Builtin(c.Op)
	want, werr := f([]interface{}{c.A.X, c.B.X})
	src, vars := c17Expr(c, false)
	if !c.Infix && hash64(src)%3 == 0 {
		// integer literals (list elements included) in other spellings of the same numbers
		if alt := respellInts(src); alt != src {
			src = alt
			r.Class("integer-literals-respelled")
		}
	}
	for _, mask := range []int{0, MaskFold, MaskFast, 15} {
		co, o := c17Eval(src, vars, mask, c.Infix, c.Const)
		if co.Panic != nil || co.Err != nil {
			return Violf("C17: compile failed for %s (operands as constants: %v): %v\na=%s\nb=%s", clip(src, 200), c.Const, co, clip(renderAny(c.A.X), 300), clip(renderAny(c.B.X), 300))
		}
		// TryEval with everything available computes the same thing
		if _, ot := c17Eval(src, vars, mask, c.Infix, c.Const, true); !Agrees(ot, want, werr) {
			return Violf("C17: TryEval of %s disagrees with set semantics (config %s, everything available)\nexpr=%s\na=%s\nb=%s\nengine=%v\nexpected=%s", c.Op, maskName(mask), clip(src, 300), clip(renderAny(c.A.X), 600), clip(renderAny(c.B.X), 600), ot, refString(want, werr))
		}
		if !Agrees(o, want, werr) {
			return Violf("C17: %s disagrees with set semantics (config %s)\nexpr=%s\na=%s\nb=%s\nengine=%v\nexpected=%s", c.Op, maskName(mask), clip(src, 300), clip(renderAny(c.A.X), 600), clip(renderAny(c.B.X), 600), o, refString(want, werr))
		}
		if c.Op == "overlap" {
			// symmetry, asserted directly on the engine
			src2, vars2 := c17Expr(c, true)
			_, o2 := c17Eval(src2, vars2, mask, c.Infix, c.Const)
			if !SameOutcome(o, o2) {
				return Violf("C17: overlap is not symmetric (config %s)\n%s -> %v\n%s -> %v\na=%s\nb=%s", maskName(mask), clip(src, 200), o, clip(src2, 200), o2, clip(renderAny(c.A.X), 600), clip(renderAny(c.B.X), 600))
			}
		}
	}
	// the same list object again after the caller changed one element in place (and a shorter
	// window of the same backing array): the answer follows the contents, not the identity
	if v := c17InPlace(c, r); v != nil {
		return v
	}
	la, lb := listLen(c.A.X), listLen(c.B.X)
	total := 0
	if la > 0 {
		total += la
	}
	if lb > 0 {
		total += lb
	}
	switch {
	case werr != nil:
		r.Class("mismatch-or-bad-type")
	case total >= 100:
		r.Class("hashing-path")
	default:
		r.Class("scan-path")
	}
	if la == 0 || lb == 0 {
		r.Class("empty-list-involved")
	}
	if _, ok := c.B.X.(map[int64]struct{}); ok {
		r.Class("prebuilt-set")
	}
	if _, ok := c.B.X.(map[string]struct{}); ok {
		r.Class("prebuilt-set")
	}
	if total >= 100 || la == 0 || lb == 0 || werr != nil {
		r.NonTrivial(src+fmt.Sprint(c.A, c.B), func() interface{} {
			return map[string]interface{}{"expr": clip(src, 160), "len_a": la, "len_b": lb, "expected": refString(want, werr), "origin": c.Origin}
		})
	}
	return nil
}

func c17InPlace(c C17Case, r *Rec) *Violation {
	f, _ := m.Builtin(c.Op)
	check := func(a, b interface{}, what string) *Violation {
		want, werr := f([]interface{}{a, b})
		cc := eval.NewConfig()
		cc.VariableKeyMap["va"], cc.VariableKeyMap["vb"] = 1, 2
		for _, mask := range []int{0, 15} {
			for i, o := range allOpts {
				cc.CompileOptions[o] = mask&(1<<i) != 0
			}
			e, co := SafeCompile(cc, "("+c.Op+" va vb)")
			if co.Panic != nil || co.Err != nil {
				return Violf("C17: compile failed: %v", co)
			}
			o := Safe(func() (eval.Value, error) { return e.Eval(&eval.Ctx{VariableFetcher: mapFetcher{"va": a, "vb": b}}) })
			if !Agrees(o, want, werr) {
				return Violf("C17: %s on a list the caller owns, %s: engine=%v expected=%s\na=%s\nb=%s", c.Op, what, o, refString(want, werr), clip(renderAny(a), 500), clip(renderAny(b), 500))
			}
		}
		return nil
	}
	switch b := c.B.X.(type) {
	case []int64:
		if len(b) < 2 {
			return nil
		}
		own := append([]int64(nil), b...) // one backing array for the whole sequence
		a := c.A.X
		if v := check(a, own, "first look"); v != nil {
			return v
		}
		k := len(own) / 2
		old := own[k]
		own[k] = 987654321 // a value that was not in the list
		probe := interface{}(int64(987654321))
		if c.Op == "overlap" {
			probe = []int64{5, 987654321}
		}
		if v := check(probe, own, "after one element was replaced in place by the probed value"); v != nil {
			return v
		}
		if c.Op == "in" {
			if v := check(old, own[:k], "a shorter window of the same array, probing a value that is now outside"); v != nil {
				return v
			}
		}
		r.Class("in-place-update-sequence")
	case []string:
		if len(b) < 2 {
			return nil
		}
		own := append([]string(nil), b...)
		if v := check(c.A.X, own, "first look"); v != nil {
			return v
		}
		k := len(own) / 2
		own[k] = "fresh-value"
		probe := interface{}("fresh-value")
		if c.Op == "overlap" {
			probe = []string{"zz", "fresh-value"}
		}
		if v := check(probe, own, "after one element was replaced in place by the probed value"); v != nil {
			return v
		}
		r.Class("in-place-update-sequence")
	}
	return nil
}

func sweepC17(tier string, shard, shards int, emit func(C17Case)) {
	if shard != 0 {
		return
	}
	sizes := []int{0, 1, 49, 50, 51, 99, 100, 101}
	for _, strs := range []bool{false, true} {
		for _, la := range sizes {
			for _, lb := range sizes {
				for common := 0; common < 5; common++ { // none, first/first, first/last, last/first, last/last
					if common > 0 && (la == 0 || lb == 0) {
						continue
					}
					a, b := make([]int64, la), make([]int64, lb)
					for i := range a {
						a[i] = int64(2 * i)
					}
					for i := range b {
						b[i] = int64(2*i + 1)
					}
					switch common {
					case 1:
						a[0], b[0] = -7, -7
					case 2:
						a[0], b[lb-1] = -7, -7
					case 3:
						a[la-1], b[0] = -7, -7
					case 4:
						a[la-1], b[lb-1] = -7, -7
					}
					var va, vb interface{} = a, b
					if strs {
						sa, sb := make([]string, la), make([]string, lb)
						for i, v := range a {
							sa[i] = elemStr(v)
						}
						for i, v := range b {
							sb[i] = elemStr(v)
						}
						va, vb = sa, sb
					}
					for _, lit := range []bool{false, true} {
						emit(C17Case{Op: "overlap", A: m.V{X: va}, B: m.V{X: vb}, ALit: lit, BLit: !lit, Origin: "sweep"})
					}
					if (la+lb+common)%3 == 0 {
						emit(C17Case{Op: "overlap", A: m.V{X: va}, B: m.V{X: vb}, ALit: true, BLit: true, Infix: true, Origin: "sweep-infix"})
					}
					// in: probe = the planted element (or an absent one)
					var probe interface{} = int64(-7)
					if strs {
						probe = elemStr(-7)
					}
					emit(C17Case{Op: "in", A: m.V{X: probe}, B: m.V{X: vb}, ALit: true, BLit: false, Origin: "sweep"})
				}
			}
		}
	}
	// long string elements on both paths
	for _, n := range []int{10, 49, 50, 60} {
		a, b := make([]string, n), make([]string, n)
		for i := range a {
			a[i], b[i] = elemStr(int64(2*i)), elemStr(int64(2*i+1))
		}
		a[n-1], b[0] = "common", "common"
		for _, lit := range []bool{false, true} {
			emit(C17Case{Op: "overlap", A: m.V{X: longElems(a)}, B: m.V{X: longElems(b)}, ALit: lit, BLit: lit, Origin: "sweep-long-elements"})
			emit(C17Case{Op: "in", A: m.V{X: longElems([]string{"common"})[0]}, B: m.V{X: longElems(b)}, ALit: true, BLit: lit, Origin: "sweep-long-elements"})
		}
	}
	// element lengths around powers of two, on the scan path and on the hashing path
	for _, ln := range []int{0, 1, 15, 16, 17, 31, 32, 33, 63, 64, 65, 127, 128, 129, 255, 256, 257, 1023, 1024, 1025} {
		for _, n := range []int{4, 60} {
			a, b := make([]string, n), make([]string, n)
			for i := range a {
				a[i] = strings.Repeat("a", ln) + elemStr(int64(i))
				b[i] = strings.Repeat("a", ln) + elemStr(int64(i+n))
			}
			common := strings.Repeat("c", ln)
			a[n/2], b[n-1] = common, common
			emit(C17Case{Op: "overlap", A: m.V{X: a}, B: m.V{X: b}, Origin: "sweep-element-length"})
			emit(C17Case{Op: "in", A: m.V{X: common}, B: m.V{X: b}, Origin: "sweep-element-length"})
			b[n-1] = common + "x"
			emit(C17Case{Op: "overlap", A: m.V{X: a}, B: m.V{X: b}, Origin: "sweep-element-length"})
		}
	}
	// pairs of different literals whose elements, joined by blanks, read the same
	for _, n := range []int{3, 31, 32, 33, 64} {
		fill := make([]string, n)
		for i := range fill {
			fill[i] = elemStr(int64(i))
		}
		l1 := append([]string{"a b", "c"}, fill...)
		l2 := append([]string{"a", "b c"}, fill...)
		for _, probe := range []string{"a b", "b c", "a", "c"} {
			emit(C17Case{Op: "in", A: m.V{X: probe}, B: m.V{X: l1}, ALit: true, BLit: true, Origin: "sweep-same-joined-text"})
			emit(C17Case{Op: "in", A: m.V{X: probe}, B: m.V{X: l2}, ALit: true, BLit: true, Origin: "sweep-same-joined-text"})
		}
		emit(C17Case{Op: "overlap", A: m.V{X: []string{"a b"}}, B: m.V{X: l2}, ALit: true, BLit: true, Origin: "sweep-same-joined-text"})
		emit(C17Case{Op: "overlap", A: m.V{X: []string{"a b"}}, B: m.V{X: l1}, ALit: true, BLit: true, Origin: "sweep-same-joined-text"})
	}
	// the empty literal against every shape
	for _, other := range []interface{}{[]int64{1, 2}, []string{"a"}, []int64{}, []string{}} {
		emit(C17Case{Op: "overlap", A: m.V{X: []string{}}, B: m.V{X: other}, ALit: true, BLit: false, Origin: "sweep-empty"})
		emit(C17Case{Op: "overlap", A: m.V{X: other}, B: m.V{X: []string{}}, ALit: false, BLit: true, Origin: "sweep-empty"})
	}
	for _, probe := range []interface{}{int64(1), "a"} {
		emit(C17Case{Op: "in", A: m.V{X: probe}, B: m.V{X: []string{}}, ALit: true, BLit: true, Origin: "sweep-empty"})
	}
}

var propC17 = Prop[C17Case]{
	ID:    "C17",
	Rule:  "(in v L) / (overlap A B) with int64 and string lists of length 0..300 concentrated on combined length 95..105 (the scan/hash switch), duplicates, disjoint lists with one common element planted at the first/middle/last position of either list, the empty literal and typed empty lists on either side, pre-built sets, element-type mismatches, non-list operands; operands passed as literals and as variables; configs none/folding/fast/all. Oracle: map-based membership/intersection model; overlap(A,B)=overlap(B,A) asserted on the engine itself. Thorough/quick both run the exhaustive (|A|,|B|) grid over {0,1,49,50,51,99,100,101}^2 x common-element position x element type. Non-trivial = combined length >= 100, or an empty list involved, or a mismatch; distinct by expression + operands",
	Gen:   genC17,
	Check: checkC17,
	Sweep: sweepC17,
}

func TestC17(t *testing.T)       { Run(t, propC17) }
func TestC17Replay(t *testing.T) { Replay(t, propC17) }
