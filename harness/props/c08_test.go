//go:build verif

package props

import (
	"fmt"
	"reflect"
	"runtime"
	"sort"
	"strings"
	"sync"
	"testing"
	"time"

	"github.com/onheap/eval"
	"pgregory.net/rapid"

	m "verifharness/model"
)

// C08 – Compile is a pure, deterministic function of config contents and source.

type C08Source struct {
	Prefix string  `json:"prefix"` // directive comments (possibly malformed) put in front
	Tree   *m.Node `json:"tree"`
}

type C08Action struct {
	Kind int `json:"kind"` // (5: a different config compiles source S, then the shared one again) 0 Compile(source S) on the shared config, 1 CopyConfig + mutate the copy, 2 NewConfig(ExtendConf) + mutate the copy, 3 Compile on a copy, 4 mutate the original's copy-source relation the other way (mutate original after copying; the copy must not change)
	S    int `json:"s"`
	Mut  int `json:"mut"` // which container the mutation touches
}

type C08Case struct {
	U        Universe    `json:"u"`
	Costs    []CostEntry `json:"costs,omitempty"`
	Mask     int         `json:"mask"`
	Sparse   bool        `json:"sparse,omitempty"` // options written sparsely (absent = enabled)
	Sources  []C08Source `json:"sources"`
	Actions  []C08Action `json:"actions"`
	Parallel [][]int     `json:"parallel"` // per goroutine: indexes of sources to compile on the shared config
	// ExtraOpts: keys written directly into the caller's CompileOptions map that no Option function
	// ever writes: 1 "optimize":true, 2 "optimize":false, 3 an unknown key, 4 both (the engine
	// ignores them; they are the caller's all the same)
	ExtraOpts int `json:"extra_opts,omitempty"`
	// Procs: GOMAXPROCS during the concurrent phase (0: the machine's); with one processor the
	// compilations interleave only where the stateless custom operators (called while folding) yield
	Procs int `json:"procs,omitempty"`
	// Infix: the shared config enables infix notation and the sources are written in it
	Infix bool `json:"infix,omitempty"`
}

var malformedDirectives = []string{";;;; bogus\n", ";;;; reordering:maybe\n", ";;;; a:b:c\n", ";;;; debug:true\n", ";;;;\n", ";;;; optimize\n"}

func genC08(t *rapid.T) C08Case {
	// one universe shared by all sources: draw the trees first, then a universe covering all of them
	ns := rapid.IntRange(2, 5).Draw(t, "nsources")
	var trees []*m.Node
	all := m.Op("c_all")
	for i := 0; i < ns; i++ {
		g := &G{t: t, GenCfg: GenCfg{
			Depth:    rapid.IntRange(2, 5).Draw(t, "depth"),
			MaxArity: rapid.IntRange(2, 6).Draw(t, "maxarity"),
			Failing:  rapid.IntRange(0, 3).Draw(t, "failing") == 0,
			Custom:   true, Consts: true, Aliases: true, BoolW: 8,
		}}
		tr := wrapRoot(g.Program(rootTy(t)))
		fixEmptyLists(tr)
		trees = append(trees, tr)
		all.Kids = append(all.Kids, tr)
	}
	// one source uses a large unsorted list constant next to a small literal: operators that
	// work on lists (at fold time too) must not rearrange the caller's constant
	if rapid.IntRange(0, 2).Draw(t, "bigconst") == 0 {
		lit := []int64{3, 1, 2}
		if rapid.Bool().Draw(t, "longlit") { // the constant is then the shorter operand
			lit = bigInts(150)
		}
		tr := m.Op("or", m.Op("overlap", m.NamedConst("KBIG", nil), m.Const(lit)), m.Op("in", m.Const(int64(5)), m.NamedConst("KBIG", nil)), m.Op("overlap", m.Const(lit), m.NamedConst("KBIG", nil)))
		trees = append(trees, tr)
		all.Kids = append(all.Kids, tr)
		ns++
	}
	u := UniverseFor(t, all, false)
	u.Stateless = drawStateless(t)
	for i := range u.Consts {
		if u.Consts[i].Name == "KBIG" {
			big := make([]int64, 120)
			for k := range big {
				big[k] = int64((k*7919+13)%1009) + 10
			}
			u.Consts[i].Val.X = big
			all.Walk(func(x *m.Node) {
				if x.Kind == m.KConst && x.Name == "KBIG" {
					x.Val = big
				}
			})
		}
	}
	if u.RegMode == RegVarAndOp {
		u.RegMode = RegGetOrReg // keep key assignment a function of the case
	}
	c := C08Case{U: *u, Mask: rapid.IntRange(0, 15).Draw(t, "mask"), Sparse: rapid.Bool().Draw(t, "sparse"), Costs: genCosts(t, all, finiteCosts)}
	c.ExtraOpts = pickW(t, "extraopts", 6, 1, 1, 1, 1)
	for _, tr := range trees {
		src := C08Source{Tree: tr}
		switch pickW(t, "directive", 3, 5, 1) {
		case 1:
			src.Prefix = directive(rapid.IntRange(0, 15).Draw(t, "dirmask"), rapid.IntRange(0, directiveVariants-1).Draw(t, "dirvar"))
		case 2:
			src.Prefix = rapid.SampledFrom(malformedDirectives).Draw(t, "malformed")
		}
		c.Sources = append(c.Sources, src)
	}
	// at least one source with a directive and one without, so that a leak could show
	if c.Sources[0].Prefix == "" {
		c.Sources[0].Prefix = directive(rapid.IntRange(0, 15).Draw(t, "dirmask0"), rapid.IntRange(0, directiveVariants-1).Draw(t, "dirvar0"))
	}
	c.Sources[len(c.Sources)-1].Prefix = ""
	na := rapid.IntRange(2, 12).Draw(t, "nactions")
	for i := 0; i < na; i++ {
		c.Actions = append(c.Actions, C08Action{Kind: pickW(t, "action", 6, 2, 2, 1, 1, 2), S: rapid.IntRange(0, ns-1).Draw(t, "src"), Mut: rapid.IntRange(0, 6).Draw(t, "mut")})
	}
	ng := rapid.IntRange(2, 8).Draw(t, "goroutines")
	for g := 0; g < ng; g++ {
		c.Parallel = append(c.Parallel, rapid.SliceOfN(rapid.IntRange(0, ns-1), 2, 8).Draw(t, "work"))
	}
	c.Procs = []int{0, 1, 2, 4}[pickW(t, "procs", 3, 1, 1, 1)]
	c.Infix = rapid.IntRange(0, 2).Draw(t, "infix") == 0
	return c
}

type cfgSnapshot struct {
	nils      [6]bool // which of the six containers are nil (a struct-literal config may leave them so)
	consts    map[string]string
	ops       map[string]uintptr
	keys      map[string]eval.VariableKey
	costs     map[string]float64
	options   map[eval.CompileOption]bool
	stateless []string
}

func snapshotConfig(cc *eval.Config) cfgSnapshot {
	s := cfgSnapshot{consts: map[string]string{}, ops: map[string]uintptr{}, keys: map[string]eval.VariableKey{}, costs: map[string]float64{}, options: map[eval.CompileOption]bool{}}
	for k, v := range cc.ConstantMap {
		s.consts[k] = fmt.Sprintf("%T|%v", v, v)
	}
	for k, v := range cc.OperatorMap {
		s.ops[k] = reflect.ValueOf(v).Pointer()
	}
	for k, v := range cc.VariableKeyMap {
		s.keys[k] = v
	}
	for k, v := range cc.CostsMap {
		s.costs[k] = v
	}
	for k, v := range cc.CompileOptions {
		s.options[k] = v
	}
	s.stateless = append([]string{}, cc.StatelessOperators...)
	s.nils = [6]bool{cc.ConstantMap == nil, cc.OperatorMap == nil, cc.VariableKeyMap == nil, cc.CostsMap == nil, cc.CompileOptions == nil, cc.StatelessOperators == nil}
	return s
}

// diff compares contents; sameObject also compares which containers are nil (for before/after
// comparisons of one and the same config - a copy may well turn nil into empty).
func (a cfgSnapshot) diff(b cfgSnapshot, sameObject ...bool) string {
	if len(sameObject) > 0 && sameObject[0] && a.nils != b.nils {
		return fmt.Sprintf("nil containers (ConstantMap, OperatorMap, VariableKeyMap, CostsMap, CompileOptions, StatelessOperators) %v -> %v", a.nils, b.nils)
	}
	if !reflect.DeepEqual(a.consts, b.consts) {
		return fmt.Sprintf("ConstantMap %v -> %v", a.consts, b.consts)
	}
	if !reflect.DeepEqual(a.ops, b.ops) {
		return fmt.Sprintf("OperatorMap changed (%d -> %d entries)", len(a.ops), len(b.ops))
	}
	if !reflect.DeepEqual(a.keys, b.keys) {
		return fmt.Sprintf("VariableKeyMap %v -> %v", a.keys, b.keys)
	}
	if !reflect.DeepEqual(a.costs, b.costs) {
		return fmt.Sprintf("CostsMap %v -> %v", a.costs, b.costs)
	}
	if !reflect.DeepEqual(a.options, b.options) {
		return fmt.Sprintf("CompileOptions %v -> %v", a.options, b.options)
	}
	if !reflect.DeepEqual(a.stateless, b.stateless) {
		return fmt.Sprintf("StatelessOperators %v -> %v", a.stateless, b.stateless)
	}
	return ""
}

// mutateConfig changes one container of cc (and, for 6, an element of the stateless slice in place).
func mutateConfig(cc *eval.Config, which int) {
	switch which % 7 {
	case 0:
		cc.ConstantMap["Kx"] = int64(99)
		for k := range cc.ConstantMap {
			cc.ConstantMap[k] = "overwritten"
		}
	case 1:
		cc.OperatorMap["c_new"] = func(*eval.Ctx, []eval.Value) (eval.Value, error) { return nil, nil }
		delete(cc.OperatorMap, "c_id")
	case 2:
		cc.VariableKeyMap["zz_new"] = 31000
		for k := range cc.VariableKeyMap {
			cc.VariableKeyMap[k] += 1000
		}
	case 3:
		cc.CostsMap["variable"] = 12345
		cc.CostsMap["and"] = -7
	case 4:
		for _, o := range allOpts {
			cc.CompileOptions[o] = !cc.CompileOptions[o]
		}
		cc.CompileOptions[eval.InfixNotation] = true
	case 5:
		cc.StatelessOperators = append(cc.StatelessOperators, "c_cnt", "c_fail")
	default:
		if len(cc.StatelessOperators) > 0 {
			cc.StatelessOperators[0] = "c_cnt"
		} else {
			cc.StatelessOperators = append(cc.StatelessOperators, "c_cnt")
		}
	}
}

type c08Result struct {
	compileErr bool
	dump       string
	table      string
	outs       [3]Outcome
}

func (a c08Result) diff(b c08Result) string {
	if a.compileErr != b.compileErr {
		return fmt.Sprintf("compile error %v vs %v", a.compileErr, b.compileErr)
	}
	if a.dump != b.dump {
		return fmt.Sprintf("Dump differs:\n%s\nvs\n%s", a.dump, b.dump)
	}
	if a.table != b.table {
		return fmt.Sprintf("DumpTable differs:\n%s\nvs\n%s", a.table, b.table)
	}
	for i := range a.outs {
		if !SameOutcome(a.outs[i], b.outs[i]) {
			return fmt.Sprintf("outcome on binding %d: %v vs %v", i, a.outs[i], b.outs[i])
		}
	}
	return ""
}

func c08Compile(cc *eval.Config, u *Universe, src string) (c08Result, *Violation) {
	var res c08Result
	e, co := SafeCompile(cc, src)
	if co.Panic != nil {
		return res, Violf("C08: Compile panics: %v\nsrc=%q", co, src)
	}
	if co.Err != nil {
		res.compileErr = true
		return res, nil
	}
	res.dump, _ = SafeStr(func() string { return eval.Dump(e) })
	res.table, _ = SafeStr(func() string { return eval.DumpTable(e, false) })
	for k := 0; k < 3; k++ {
		f := &Fetcher{Vars: rebind(u, k), Fail: u.Fail(), Log: &Log{}}
		res.outs[k] = Safe(func() (eval.Value, error) { return e.Eval(f.Ctx()) })
	}
	return res, nil
}

// closedSource renders the tree with every variable replaced by the literal of its bound value, every
// named constant by its literal and every registered operator by a built-in of the same shape: a
// program that needs no names, so that it can be compiled with a nil *Config.
func closedSource(tree *m.Node, u *Universe) string {
	t := tree.Clone()
	vals := rebind(u, 0)
	t.Walk(func(x *m.Node) {
		switch {
		case x.Kind == m.KVar:
			if v, ok := vals[x.Name]; ok {
				x.Kind, x.Val, x.Name = m.KConst, v, ""
			}
		case x.Kind == m.KConst:
			x.Name = ""
		case x.Kind == m.KOp && strings.HasPrefix(x.Name, "c_"):
			x.Name = "eq"
		}
	})
	return m.Render(t)
}

// nilConfigProbes: hand-written name-free programs whose optimized and unoptimized forms differ.
var nilConfigProbes = []string{
	`(and (or (= 1 1) (> 2 3)) (and (< 1 2) (!= 1 2)))`,
	`(if (and (= 1 1) (> (+ 1 2 3) 5)) (+ 1 (* 2 3)) (- 5 1))`,
	`(or (and (> (/ 4 2) 1) (in 3 (1 2 3))) (overlap (1 2) (2 3)))`,
	`(not (and (= "a" "a") (or (= "b" "c") (between 2 1 3))))`,
}

func checkC08(c C08Case, r *Rec) *Violation {
	u := &c.U
	how := HowMapAll
	if c.Sparse {
		how = HowMapSparse
	}
	cc, _ := NewConfig(u, &Log{}, Build{Mask: c.Mask, How: how, Costs: c.Costs, Pure: true, Infix: c.Infix})
	if c.Mask%2 == 0 { // the caller's stateless slice may have spare capacity (built by appending)
		withCap := make([]string, len(cc.StatelessOperators), len(cc.StatelessOperators)+5)
		copy(withCap, cc.StatelessOperators)
		cc.StatelessOperators = withCap
	}
	// constants the caller wrote in Go types the engine would normalise when it reads them (int, int32,
	// []int, time.Time, Duration): no source mentions them; they are the caller's values and stay as they are
	if c.Mask%2 == 1 {
		cc.ConstantMap["KRAW_INT"] = int(5)
		cc.ConstantMap["KRAW_I32"] = int32(-7)
		cc.ConstantMap["KRAW_LIST"] = []int{3, 1, 2}
		cc.ConstantMap["KRAW_TIME"] = time.Unix(1700000000, 5)
		cc.ConstantMap["KRAW_DUR"] = 1500 * time.Millisecond
		cc.ConstantMap["KRAW_U8"] = uint8(200)
		r.Class("caller-constants-of-non-canonical-go-types")
	}
	// a config written as a struct literal leaves what it does not need nil
	if c.Mask%3 == 1 {
		if len(cc.ConstantMap) == 0 {
			cc.ConstantMap = nil
		}
		if len(cc.CostsMap) == 0 {
			cc.CostsMap = nil
		}
		if len(cc.StatelessOperators) == 0 {
			cc.StatelessOperators = nil
		}
		if len(cc.VariableKeyMap) == 0 {
			cc.VariableKeyMap = nil
		}
		r.Class("empty-containers-left-nil")
	}
	switch c.ExtraOpts {
	case 1:
		cc.CompileOptions[eval.Optimize] = true
	case 2:
		cc.CompileOptions[eval.Optimize] = false
	case 3:
		cc.CompileOptions["zz_unknown_option"] = true
	case 4:
		cc.CompileOptions[eval.Optimize] = c.Mask%2 == 0
		cc.CompileOptions["zz_unknown_option"] = false
	}
	if c.ExtraOpts != 0 {
		r.Class("caller-written-option-keys")
	}
	srcs := make([]string, len(c.Sources))
	for i, s := range c.Sources {
		srcs[i] = s.Prefix + m.Render(s.Tree)
		if c.Infix {
			srcs[i] = s.Prefix + m.RenderInfix(s.Tree, m.InfixOpts{})
		}
	}
	base := snapshotConfig(cc)
	first := map[int]c08Result{}
	describe := func() string {
		return fmt.Sprintf("config options=%s sparse=%v stateless=%v costs=%v\nsources=%q", maskName(c.Mask), c.Sparse, u.Stateless, c.Costs, srcs)
	}
	compileShared := func(i int, when string) *Violation {
		res, v := c08Compile(cc, u, srcs[i])
		if v != nil {
			return v
		}
		if d := base.diff(snapshotConfig(cc), true); d != "" {
			return Violf("C08: Compile modified the caller's Config (%s): %s\nsource=%q\n%s", when, d, srcs[i], describe())
		}
		if prev, ok := first[i]; ok {
			if d := prev.diff(res); d != "" {
				return Violf("C08: compiling the same source with the same config again (%s) gives a different program: %s\nsource=%q\n%s", when, d, srcs[i], describe())
			}
		} else {
			first[i] = res
		}
		return nil
	}
	leakVisible := false
	sawDirective := false
	for k, a := range c.Actions {
		switch a.Kind {
		case 0:
			if v := compileShared(a.S, fmt.Sprintf("action %d", k)); v != nil {
				return v
			}
			if c.Sources[a.S].Prefix != "" {
				sawDirective = true
			} else if sawDirective && first[a.S].dump != "" {
				leakVisible = true
			}
		case 1, 2:
			var cp *eval.Config
			if a.Kind == 1 {
				cp = eval.CopyConfig(cc)
			} else {
				cp = eval.NewConfig(eval.ExtendConf(cc))
			}
			if d := base.diff(snapshotConfig(cp)); d != "" {
				return Violf("C08: a copy (kind %d) differs from its source: %s\n%s", a.Kind, d, describe())
			}
			mutateConfig(cp, a.Mut)
			if d := base.diff(snapshotConfig(cc), true); d != "" {
				return Violf("C08: mutating a copy (kind %d, mutation %d) changed the source config: %s\n%s", a.Kind, a.Mut%7, d, describe())
			}
			// two sibling copies that each append to their own stateless list must not see each other
			mk := func() *eval.Config {
				if a.Kind == 1 {
					return eval.CopyConfig(cc)
				}
				return eval.NewConfig(eval.ExtendConf(cc))
			}
			sib1, sib2 := mk(), mk()
			sib1.StatelessOperators = append(sib1.StatelessOperators, "zz_one")
			sib2.StatelessOperators = append(sib2.StatelessOperators, "zz_two")
			sib1.StatelessOperators = append(sib1.StatelessOperators, "zz_three")
			want1 := append(append([]string{}, base.stateless...), "zz_one", "zz_three")
			want2 := append(append([]string{}, base.stateless...), "zz_two")
			if !reflect.DeepEqual(sib1.StatelessOperators, want1) || !reflect.DeepEqual(sib2.StatelessOperators, want2) {
				return Violf("C08: two copies (kind %d) of one config share their stateless list: after appending to each, they hold %v and %v, expected %v and %v\n%s", a.Kind, sib1.StatelessOperators, sib2.StatelessOperators, want1, want2, describe())
			}
			if d := base.diff(snapshotConfig(cc), true); d != "" {
				return Violf("C08: appending to copies changed the source config: %s\n%s", d, describe())
			}
			r.Class("copy-mutated")
		case 3:
			cp := eval.CopyConfig(cc)
			res, v := c08Compile(cp, u, srcs[a.S])
			if v != nil {
				return v
			}
			if d := base.diff(snapshotConfig(cp)); d != "" {
				return Violf("C08: Compile modified the (copied) Config: %s\nsource=%q\n%s", d, srcs[a.S], describe())
			}
			if prev, ok := first[a.S]; ok {
				if d := prev.diff(res); d != "" {
					return Violf("C08: an equal config gives a different program: %s\nsource=%q\n%s", d, srcs[a.S], describe())
				}
			} else {
				first[a.S] = res
			}
		case 5:
			// another config with the same names but other contents (more operators declared
			// stateless, an operator replaced) compiles the source; the shared config must
			// afterwards still give what it gave before: Compile depends on the config it is
			// given, not on which configs were compiled earlier in the process
			other := eval.CopyConfig(cc)
			other.StatelessOperators = append(other.StatelessOperators, "c_id", "c_sum", "c_not", "c_cat")
			other.CostsMap["variable"] = 31337 // cost entries the shared config does not have
			other.CostsMap["operator"] = -77
			for i, v := range u.Vars {
				other.CostsMap[v.Name] = float64(1000 - 37*i)
			}
			for _, n := range []string{"and", "or", "=", ">", "in", "c_id", "+"} {
				other.CostsMap[n] = float64(len(n) * 111)
			}
			if a.Mut%2 == 0 {
				other.OperatorMap["c_id"] = func(*eval.Ctx, []eval.Value) (eval.Value, error) { return int64(4242), nil }
			}
			if _, v := c08Compile(other, u, srcs[a.S]); v != nil {
				return v
			}
			if v := compileShared(a.S, fmt.Sprintf("action %d, after a different config compiled the same source", k)); v != nil {
				return v
			}
			r.Class("other-config-compiled-in-between")
		default:
			// copy, then change the ORIGINAL's clone: the earlier copy must keep the old contents
			orig := eval.CopyConfig(cc)
			cp := eval.CopyConfig(orig)
			mutateConfig(orig, a.Mut)
			if d := base.diff(snapshotConfig(cp)); d != "" {
				return Violf("C08: mutating a config (mutation %d) changed a copy taken earlier: %s\n%s", a.Mut%7, d, describe())
			}
		}
	}
	// key allocation on a copy leaves the source's future allocations alone: the source registers a name,
	// is copied, the copy registers another, the source gets a key written by hand and registers a third -
	// and gets the key it gets when no copy was ever made (a twin history without the copy)
	for variant := 0; variant < 6; variant++ {
		ext, cnt := variant%2 == 1, 1+variant/2 // (as many names on the copy as keys written by hand, 1..3)
		history := func(withCopy bool) (eval.VariableKey, eval.VariableKey) {
			a := eval.CopyConfig(cc)
			eval.GetOrRegisterKey(a, "zz_first")
			if withCopy {
				var b *eval.Config
				if ext {
					b = eval.NewConfig(eval.ExtendConf(a))
				} else {
					b = eval.CopyConfig(a)
				}
				for i := 0; i < cnt; i++ {
					eval.GetOrRegisterKey(b, fmt.Sprintf("zz_on_the_copy_%d", i))
				}
			}
			for i := 0; i < cnt; i++ {
				a.VariableKeyMap[fmt.Sprintf("zz_by_hand_%d", i)] = eval.VariableKey(31990 + i)
			}
			k1 := eval.GetOrRegisterKey(a, "zz_third")
			delete(a.VariableKeyMap, "zz_by_hand_0")
			k2 := eval.GetOrRegisterKey(a, "zz_fourth")
			return k1, k2
		}
		w1, w2 := history(false)
		g1, g2 := history(true)
		if w1 != g1 || w2 != g2 {
			return Violf("C08: registering %d name(s) on a copy (ExtendConf=%v) changes the keys the source hands out afterwards: %d, %d with the copy, %d, %d without\n%s", cnt, ext, g1, g2, w1, w2, describe())
		}
	}
	// the nil config: Compile(nil, ...) stands for a fresh default config every time. Name-free probes are
	// compiled first; then name-free variants of the case's sources, with their directives (valid and
	// malformed) in front, are compiled with a nil config as well; the probes must still compile to what
	// they compiled to - a directive is for its own compilation only, whichever config object it met
	nilSrcs := append([]string{}, nilConfigProbes...)
	for _, sc := range c.Sources {
		nilSrcs = append(nilSrcs, closedSource(sc.Tree, u))
	}
	nilFirst := make([]c08Result, len(nilSrcs))
	for i, src := range nilSrcs {
		res, v := c08Compile(nil, u, src)
		if v != nil {
			return v
		}
		nilFirst[i] = res
	}
	nilAgain := func(when string) *Violation {
		for i, src := range nilSrcs {
			res, v := c08Compile(nil, u, src)
			if v != nil {
				return v
			}
			if d := nilFirst[i].diff(res); d != "" {
				return Violf("C08: Compile with a nil config gives a different program %s: %s\nsource=%q\n%s", when, d, src, describe())
			}
		}
		return nil
	}
	nilDirectives := 0
	for i, sc := range c.Sources {
		if sc.Prefix == "" {
			continue
		}
		nilDirectives++
		if _, v := c08Compile(nil, u, sc.Prefix+nilSrcs[len(nilConfigProbes)+i]); v != nil {
			return v
		}
		if v := nilAgain("after a nil-config compilation of a source with directives (" + strings.TrimSpace(sc.Prefix) + ")"); v != nil {
			return v
		}
	}
	if nilDirectives > 0 {
		r.Class("nil-config-compilations-with-directives")
	}
	// every source once more, in reverse order
	for i := len(srcs) - 1; i >= 0; i-- {
		if v := compileShared(i, "recompilation in reverse order"); v != nil {
			return v
		}
	}
	// concurrent compilations on the shared config
	var wg sync.WaitGroup
	var mu sync.Mutex
	var bad *Violation
	start := make(chan struct{})
	for gi, work := range c.Parallel {
		wg.Add(1)
		go func(gi int, work []int) {
			defer wg.Done()
			<-start
			for _, i := range work {
				if i >= len(srcs) {
					continue
				}
				res, v := c08Compile(cc, u, srcs[i])
				if v == nil {
					if d := first[i].diff(res); d != "" {
						v = Violf("C08: compiling concurrently (goroutine %d) gives a different program: %s\nsource=%q\n%s", gi, d, srcs[i], describe())
					}
				}
				if v == nil { // ... and with a nil config, the directives of the source in front
					ni := len(nilConfigProbes) + i
					_, v = c08Compile(nil, u, c.Sources[i].Prefix+nilSrcs[ni])
					if v == nil {
						var again c08Result
						if again, v = c08Compile(nil, u, nilSrcs[ni]); v == nil {
							if d := nilFirst[ni].diff(again); d != "" {
								v = Violf("C08: compiling concurrently with a nil config (goroutine %d) gives a different program: %s\nsource=%q\n%s", gi, d, nilSrcs[ni], describe())
							}
						}
					}
				}
				if v != nil {
					mu.Lock()
					if bad == nil {
						bad = v
					}
					mu.Unlock()
					return
				}
			}
		}(gi, work)
	}
	if c.Procs > 0 {
		defer runtime.GOMAXPROCS(runtime.GOMAXPROCS(c.Procs))
	}
	close(start)
	wg.Wait()
	if bad != nil {
		return bad
	}
	if d := base.diff(snapshotConfig(cc), true); d != "" {
		return Violf("C08: concurrent Compile calls modified the caller's Config: %s\n%s", d, describe())
	}

	// evidence: a directive-bearing compile followed by a directive-free compile whose optimized form differs from its unoptimized form
	nontrivial := false
	if leakVisible {
		for i, s := range c.Sources {
			if s.Prefix != "" || first[i].compileErr {
				continue
			}
			plain, _ := NewConfig(u, &Log{}, Build{Mask: 0, Pure: true})
			if res, _ := c08Compile(plain, u, srcs[i]); res.dump != first[i].dump {
				nontrivial = true
			}
		}
	}
	malformed := 0
	for i := range c.Sources {
		if first[i].compileErr {
			malformed++
		}
	}
	if malformed > 0 {
		r.Class("malformed-directive-compile-error")
	}
	if nontrivial {
		keys := make([]string, 0)
		for _, s := range srcs {
			keys = append(keys, s)
		}
		sort.Strings(keys)
		r.NonTrivial(fmt.Sprint(keys, c.Actions, c.Mask, c.Costs), func() interface{} {
			return map[string]interface{}{"sources": srcs, "actions": len(c.Actions), "goroutines": len(c.Parallel), "options": maskName(c.Mask)}
		})
	}
	return nil
}

// ---------------------------------------------------------------- whole-run bracket
//
// "Again, in any order relative to other compilations": the longest history a run has is the run
// itself. A fixed set of canary cases - hand-written degenerate shapes (single-operand and/or
// groups, which only ReduceNesting makes evaluable, zero-operand calls, empty lists) and forty
// generated ones - is compiled under several option subsets before the first case of the shard and
// again after the last one, thousands of compilations later, many of them failing ones (malformed
// directives, count errors). Verdicts, Dump, DumpTable and outcomes must be the same.

type c08Canary struct {
	c    C08Case
	res  []c08Result
	what []string
}

func c08HandCanaries() []C08Case {
	b := func(i int) *m.Node { return m.Var(fmt.Sprintf("b%d", i)) }
	i := func(k int) *m.Node { return m.Var(fmt.Sprintf("i%d", k)) }
	trees := []*m.Node{
		m.Op("and", m.Op("and", b(0)), b(1)),
		m.Op("or", m.Op("or", b(0), b(1))),
		m.Op("and", m.Op("&&", b(0), b(1))),
		m.Op("or", m.Op("|", b(0)), m.Op("||", b(1))),
		m.Op("and", m.Op("or", b(0)), b(1)),
		m.If(m.Op("and", m.Op("and", b(0)), b(1)), i(0), i(1)),
		m.Op("and", m.Op("and", m.Op(">", i(0), i(1))), m.Op("=", i(0), m.Const(int64(1)))),
		m.Op("=", m.Op("c_sum"), m.Op("+", i(0), m.Const(int64(0)))),
		m.Op("overlap", m.Const([]string{}), m.Const([]int64{1, 2})),
		m.Op("and", b(0), m.Op("and", b(1), m.Op("and", b(2), m.Op("and", b(0), b(1))))),
		m.Op("or", m.Op("and", b(0), b(1)), m.Op("and", b(1), b(2)), m.Op("not", b(0))),
		m.Op("xor", m.Op("and", m.Op("and", b(0))), b(1)),
	}
	u := Universe{RegMode: RegGetOrReg}
	for k := 0; k < 3; k++ {
		u.Vars = append(u.Vars, VarDecl{Name: fmt.Sprintf("b%d", k), Ty: m.TBool, Val: m.V{X: k != 1}})
	}
	for k := 0; k < 2; k++ {
		u.Vars = append(u.Vars, VarDecl{Name: fmt.Sprintf("i%d", k), Ty: m.TInt, Val: m.V{X: int64(k + 1)}})
	}
	var out []C08Case
	for _, tr := range trees {
		out = append(out, C08Case{U: u, Mask: 15, Sources: []C08Source{{Tree: tr}}})
	}
	return out
}

func c08RunCanaries() []c08Canary {
	cases := c08HandCanaries()
	gen := rapid.Custom(genC08)
	for i := 1; i <= 40; i++ {
		cases = append(cases, gen.Example(i))
	}
	var out []c08Canary
	for _, c := range cases {
		cn := c08Canary{c: c}
		for _, s := range c.Sources {
			src := s.Prefix + m.Render(s.Tree)
			for _, mask := range []int{c.Mask, 15, MaskNest | MaskFast, MaskNest, 0} {
				u := c.U
				cc, _ := NewConfig(&u, &Log{}, Build{Mask: mask, Costs: c.Costs, Pure: true})
				res, v := c08Compile(cc, &u, src)
				if v != nil {
					res.compileErr = true
					res.dump = v.Msg
				}
				cn.res = append(cn.res, res)
				cn.what = append(cn.what, fmt.Sprintf("%s under %s", clip(src, 300), maskName(mask)))
			}
		}
		out = append(out, cn)
	}
	return out
}

func c08Before() interface{} { return c08RunCanaries() }

func c08After(before interface{}) (*Violation, C08Case) {
	was := before.([]c08Canary)
	now := c08RunCanaries()
	for i := range was {
		for k := range was[i].res {
			if d := was[i].res[k].diff(now[i].res[k]); d != "" {
				return Violf("C08: a canary program compiled before the first case of this run and again after the last one gives a different program: %s\nprogram: %s\n(the difference was caused by something the run did in between - thousands of compilations, among them failing ones - and left in process-wide state of the library; replaying this case alone will not show it)", d, was[i].what[k]), was[i].c
			}
		}
	}
	return nil, C08Case{}
}

var propC08 = Prop[C08Case]{
	ID:       "C08",
	Rule:     "histories over one shared Config (constants, variables, custom operators, cost map, option subset written fully or sparsely, optionally with caller-written keys no Option function writes - the `optimize` master key, an unknown key -, stateless list) and 2..5 sources over it, each with no directive, a valid ;;;; directive for a drawn subset (4 spellings) or a malformed one: 2..12 actions (Compile on the shared config, CopyConfig / NewConfig(ExtendConf) followed by a mutation of one of the six containers of the copy, incl. append to and in-place assignment of the stateless slice, Compile on a copy, mutation of a config after a copy was taken), then every source recompiled in reverse order, then 2..8 goroutines compiling 2..8 sources each on the shared config under the race detector. Oracles: a deep snapshot of the caller's Config (five maps, slice contents, operator identities) is identical after every Compile; the same source always gives the same compile verdict, Dump, DumpTable and outcomes on 3 bindings; copies equal their source, and mutations never cross between a config and its copies; no race report; a fixed set of canary programs (degenerate hand-written shapes and 40 generated cases, 5 subsets each) compiled before the first and after the last case of the run gives identical results. Non-trivial = the history contains a directive-bearing compile followed by a directive-free compile of a source whose optimized form differs from its unoptimized form (a leaked directive would be visible); distinct by sources + actions + options",
	Gen:      genC08,
	Check:    checkC08,
	PreWrite: true,
	Before:   c08Before,
	After:    c08After,
}

func TestC08(t *testing.T)       { Run(t, propC08) }
func TestC08Replay(t *testing.T) { Replay(t, propC08) }
