package props

import (
	"context"
	"fmt"
	"strings"
	"sync"
	"testing"
	"time"

	"github.com/onheap/eval"
	"pgregory.net/rapid"

	m "verifharness/model"
)

// C12 – event reporting observes evaluation faithfully without changing it.

type C12Case struct {
	U        Universe    `json:"u"`
	Tree     *m.Node     `json:"tree"`
	Costs    []CostEntry `json:"costs,omitempty"`
	Events   int         `json:"events"`   // 1 ReportEvent, 2 Debug, 3 both
	Consumer int         `json:"consumer"` // 0 synchronous copying reader, 1 buffered channel drained after the call, 2 reader that scribbles over every Stack it receives
	Try      bool        `json:"try,omitempty"`
	Avail    []string    `json:"avail,omitempty"`
	Masks    []int       `json:"masks"`
	Evals    int         `json:"evals,omitempty"` // evaluations of the same compiled program (different bindings), all events retained until the end
	// CtxKind: what the caller puts into Ctx.Ctx (the engine hands it to operators and does nothing else
	// with it): 0 nothing, 1 a live context, 2 a context that is already cancelled, 3 one whose deadline has passed
	CtxKind int    `json:"ctx_kind,omitempty"`
	Src     string `json:"src"`
}

func genC12(t *rapid.T) C12Case {
	g := &G{t: t, GenCfg: GenCfg{
		Depth:    rapid.IntRange(2, depthMax(5, 7)).Draw(t, "depth"),
		MaxArity: rapid.IntRange(2, 4).Draw(t, "maxarity"),
		Failing:  rapid.IntRange(0, 2).Draw(t, "failing") == 0,
		BadVars:  rapid.IntRange(0, 3).Draw(t, "badvars") == 0,
		Custom:   true, Stateful: true, Consts: true, Aliases: true,
	}}
	var tree *m.Node
	var u *Universe
	if rapid.IntRange(0, 7).Draw(t, "biglists") == 0 {
		tree, u = bigListProgram(t) // list operators on their large-list path
	} else {
		tree = wrapRoot(g.Program(rootTy(t)))
		fixEmptyLists(tree)
		u = UniverseFor(t, tree, false)
	}
	if rapid.IntRange(0, 7).Draw(t, "novars") == 0 {
		// every variable replaced by its value: a program that needs no context at all
		ok := true
		t0 := tree.Clone()
		t0.Walk(func(x *m.Node) {
			if x.Kind == m.KVar {
				if vd := u.Var(x.Name); vd != nil && vd.Mode == 0 {
					if l, isInts := vd.Val.X.([]int64); isInts && len(l) == 0 {
						ok = false
					}
					x.Kind, x.Val, x.Name = m.KConst, vd.Val.X, ""
				} else {
					ok = false
				}
			}
		})
		if ok {
			tree = t0
			u.Vars = nil
		}
	}
	c := C12Case{U: *u, Tree: tree, Costs: genCosts(t, tree, finiteCosts), CtxKind: pickW(t, "ctxkind", 4, 1, 2, 1),
		Events: 1 + pickW(t, "events", 3, 3, 1), Consumer: rapid.IntRange(0, 2).Draw(t, "consumer"),
		Try: rapid.IntRange(0, 2).Draw(t, "try") == 0, Evals: rapid.IntRange(1, 3).Draw(t, "evals"), Src: m.Render(tree)}
	if c.Try {
		var unbound []string
		for _, v := range u.Vars {
			if v.Mode == 2 {
				unbound = append(unbound, v.Name)
			}
		}
		c.Avail = genTrySplit(t, tree, unbound)
	}
	if Thorough() {
		for mask := 0; mask < 16; mask++ {
			c.Masks = append(c.Masks, mask)
		}
	} else {
		c.Masks = []int{0, MaskFast, 15, rapid.IntRange(1, 14).Draw(t, "mask")}
	}
	return c
}

type evRec struct {
	ev         eval.Event
	stackCopy  []eval.Value // taken at receipt (consumers 0 and 2)
	paramsCopy []eval.Value
	copied     bool
}

var scribble = struct{ junk string }{"scribbled by the consumer"}

// runWithConsumer attaches a consumer of the given kind, runs f, and returns the events.
func runWithConsumer(e *eval.Expr, kind, capacity int, f func()) []evRec {
	var recs []evRec
	if kind == 1 {
		ch := make(chan eval.Event, capacity)
		e.EventChan = ch
		f()
		close(ch)
		for ev := range ch {
			recs = append(recs, evRec{ev: ev})
		}
		e.EventChan = nil
		return recs
	}
	ch := make(chan eval.Event)
	e.EventChan = ch
	var wg sync.WaitGroup
	wg.Add(1)
	go func() {
		defer wg.Done()
		for ev := range ch {
			rec := evRec{ev: ev, copied: true, stackCopy: append([]eval.Value(nil), ev.Stack...)}
			if d, ok := ev.Data.(eval.OpEventData); ok {
				rec.paramsCopy = append([]eval.Value(nil), d.Params...)
			}
			if kind == 2 {
				for i := range ev.Stack {
					ev.Stack[i] = scribble
				}
				rec.ev.Stack = append([]eval.Value(nil), rec.stackCopy...)
			}
			recs = append(recs, rec)
		}
	}()
	f()
	close(ch)
	wg.Wait()
	e.EventChan = nil
	return recs
}

func sameValues(a, b []eval.Value) bool {
	if len(a) != len(b) {
		return false
	}
	for i := range a {
		if !m.EqualVal(a[i], b[i]) && fmt.Sprintf("%T%v", a[i], a[i]) != fmt.Sprintf("%T%v", b[i], b[i]) {
			return false
		}
	}
	return true
}

// loopStacksConsistent checks the Stack snapshots of the LOOP events of one Eval run against the
// operand-stack discipline, using nothing but the events themselves and the binding: the first
// snapshot is empty, and from one LOOP event to the next the stack changes as the node named by the
// first one dictates - a constant or variable pushes its value, an operator replaces the arguments
// its OP_EXEC event shows (which are the top of the snapshot) by its result, a two-leaf fast
// operator pushes its result, `if` pops the condition, the end-if marker changes nothing - after
// which a boolean on top may have decided enclosing and/or operators, which drops operands below it.
func loopStacksConsistent(recs []evRec, vars map[string]interface{}) string {
	eq := func(a, b interface{}) bool {
		return m.EqualVal(a, b) || fmt.Sprintf("%T%v", a, a) == fmt.Sprintf("%T%v", b, b)
	}
	show := func(s []eval.Value) string { return fmt.Sprintf("%v", s) }
	var prev *evRec
	var prevData eval.LoopEventData
	var ops []eval.OpEventData // OP_EXEC events since prev
	first := true
	for i := range recs {
		rec := &recs[i]
		switch d := rec.ev.Data.(type) {
		case eval.OpEventData:
			ops = append(ops, d)
			continue
		case eval.LoopEventData:
			S := rec.ev.Stack
			if first {
				first = false
				if len(S) != 0 {
					return fmt.Sprintf("the first LOOP event (position %d) reports a non-empty operand stack %s", d.CurtIdx, show(S))
				}
			}
			if prev != nil {
				P := prev.ev.Stack
				var X []eval.Value // the stack right after the previous node
				pushed := false
				switch prevData.NodeType {
				case eval.ConstantNode:
					X, pushed = append(append(X, P...), prevData.NodeValue), true
				case eval.VariableNode:
					name, _ := prevData.NodeValue.(string)
					v, bound := vars[name]
					if !bound {
						return "" // a failing fetch ends the evaluation; anything else is not modelled
					}
					X, pushed = append(append(X, P...), v), true
				case eval.OperatorNode:
					if len(ops) != 1 {
						return fmt.Sprintf("operator %v at position %d was passed (another LOOP event follows) with %d OP_EXEC events", prevData.NodeValue, prevData.CurtIdx, len(ops))
					}
					k := len(ops[0].Params)
					if len(P) < k {
						return fmt.Sprintf("operator %v at position %d takes %d arguments but the LOOP snapshot before it holds %s", prevData.NodeValue, prevData.CurtIdx, k, show(P))
					}
					for j := 0; j < k; j++ {
						if !eq(P[len(P)-k+j], ops[0].Params[j]) {
							return fmt.Sprintf("operator %v at position %d was applied to %v, but the LOOP snapshot before it ends in %s", prevData.NodeValue, prevData.CurtIdx, ops[0].Params, show(P))
						}
					}
					X, pushed = append(append(X, P[:len(P)-k]...), ops[0].Res), true
				case eval.FastOperatorNode:
					if len(ops) != 1 {
						return fmt.Sprintf("fast operator %v at position %d was passed with %d OP_EXEC events", prevData.NodeValue, prevData.CurtIdx, len(ops))
					}
					X, pushed = append(append(X, P...), ops[0].Res), true
				case eval.CondNode:
					if fmt.Sprint(prevData.NodeValue) == "if" {
						if len(P) == 0 {
							return fmt.Sprintf("`if` at position %d finds an empty operand stack", prevData.CurtIdx)
						}
						if _, isBool := P[len(P)-1].(bool); !isBool {
							return fmt.Sprintf("`if` at position %d was passed although the top of the stack %s is not a boolean", prevData.CurtIdx, show(P))
						}
						X = append(X, P[:len(P)-1]...)
					} else {
						X = append(X, P...)
					}
				default:
					return fmt.Sprintf("LOOP event for a node of type %v", prevData.NodeType)
				}
				ok := len(S) == len(X)
				if !ok && pushed && len(S) >= 1 && len(S) < len(X) {
					if _, isBool := X[len(X)-1].(bool); isBool {
						ok = true // decided enclosing and/or operators: operands below the boolean are dropped
					}
				}
				if ok {
					for j := 0; j+1 < len(S); j++ { // everything below the top is an unchanged prefix
						if !eq(S[j], X[j]) {
							ok = false
						}
					}
					if len(S) > 0 && pushed && !eq(S[len(S)-1], X[len(X)-1]) {
						ok = false
					}
					if len(S) > 0 && !pushed && !eq(S[len(S)-1], X[len(S)-1]) {
						ok = false
					}
				}
				if !ok {
					return fmt.Sprintf("LOOP event at position %d reports the operand stack %s; the previous LOOP event (position %d, %v %v) reported %s, so after that node the stack is %s (or, if a boolean on top decided enclosing and/or operators, a prefix of it below that boolean)", d.CurtIdx, show(S), prevData.CurtIdx, prevData.NodeType, prevData.NodeValue, show(P), show(X))
				}
			}
			prev, prevData, ops = rec, d, nil
		}
	}
	return ""
}

func checkC12(c C12Case, r *Rec) *Violation {
	u := &c.U
	src := m.Render(c.Tree)
	var avail map[string]bool
	if c.Try {
		avail = availSet(c.Avail)
	}
	capacity := 4*c.Tree.Size() + 16
	binaryApps := 0
	evals := c.Evals
	if evals < 1 {
		evals = 1
	}
	// every path: for half of the programs with one to three bound boolean variables the evaluations
	// of the same compiled program are ALL assignments of those variables (2..8 evaluations, all events
	// retained until the end) instead of 1..3 drawn bindings
	bools := boundBools(u)
	allAssignments := len(bools) >= 1 && len(bools) <= 3 && hash64(src)%2 == 0
	if allAssignments {
		evals = 1 << len(bools)
		r.Class(fmt.Sprintf("all-assignments-of-%d-boolean-variables", len(bools)))
	}
	bindingOf := func(k int) map[string]interface{} {
		if !allAssignments {
			return rebind(u, k)
		}
		vars := rebind(u, 0)
		for i, idx := range bools {
			vars[u.Vars[idx].Name] = k&(1<<i) != 0
		}
		return vars
	}
	for _, mask := range c.Masks {
		// the same case without events
		logP := &Log{}
		// (options written fully, or only the disabled ones - absent means enabled - rotating with the case)
		how := []int{HowMapAll, HowMapSparse}[hash64(src)%2]
		ccP, _ := NewConfig(u, logP, Build{Mask: mask, How: how, Costs: c.Costs})
		eP, coP := SafeCompile(ccP, src)
		if coP.Panic != nil || coP.Err != nil {
			return Violf("C12: compile failed: %v\nsrc=%s", coP, src)
		}
		dP, _ := SafeStr(func() string { return eval.Dump(eP) })
		// with events
		logE := &Log{}
		ccE, _ := NewConfig(u, logE, Build{Mask: mask, How: how, Costs: c.Costs, Events: c.Events})
		eE, coE := SafeCompile(ccE, src)
		if coE.Panic != nil || coE.Err != nil {
			return Violf("C12: compile fails in event mode: %v\nsrc=%s", coE, src)
		}
		dE, _ := SafeStr(func() string { return eval.Dump(eE) })
		if dE != dP {
			return Violf("C12: the decompiled program differs in event mode\nconfig=%s src=%s\nplain=%s\nevent-mode dump=%s", maskName(mask), src, dP, dE)
		}
		dt, err := m.ReadDump(dP)
		if err != nil {
			return Violf("C12: unreadable dump: %v\n%s", err, dP)
		}
		// a config whose OperatorMap also holds an entry under the name of a built-in operator the program
		// uses (RegisterOperator refuses such names, a hand-built map does not): whichever of the two the
		// engine calls, it calls the same one with and without events (model-free: plain vs event mode only)
		if mask == c.Masks[0] && !c.Try {
			shadowed := ""
			c.Tree.Walk(func(x *m.Node) {
				if shadowed == "" && x.Kind == m.KOp && m.IsBuiltin(x.Name) && !m.IsAnd(x.Name) && !m.IsOr(x.Name) {
					shadowed = x.Name
				}
			})
			if shadowed != "" {
				var outs [2]Outcome
				var dumps [2]string
				for k, events := range []int{0, c.Events} {
					cc, _ := NewConfig(u, &Log{}, Build{Mask: mask, How: how, Costs: c.Costs, Events: events})
					cc.OperatorMap[shadowed] = func(*eval.Ctx, []eval.Value) (eval.Value, error) { return int64(424242), nil }
					e, co := SafeCompile(cc, src)
					if co.Panic != nil || co.Err != nil {
						outs[k] = co
						continue
					}
					dumps[k], _ = SafeStr(func() string { return eval.Dump(e) })
					f := NewFetcher(u, cc, &Log{})
					run := func() { outs[k] = Safe(func() (eval.Value, error) { return e.Eval(f.Ctx()) }) }
					if events > 0 {
						runWithConsumer(e, 1, capacity, run)
					} else {
						run()
					}
				}
				if !SameOutcomeLoose(outs[0], outs[1]) || dumps[0] != dumps[1] {
					return Violf("C12: with an OperatorMap entry under the built-in name %q, event mode %d changes the result or the program\nconfig=%s src=%s\nwithout events: %v\n%s\nwith events: %v\n%s", shadowed, c.Events, maskName(mask), src, outs[0], dumps[0], outs[1], dumps[1])
				}
				r.Class("operator-map-entry-under-a-built-in-name")
			}
		}
		// a program without variables needs no context: with a nil *Ctx (and an empty one) the event
		// stream is what it is with a context
		statefulOp := false
		c.Tree.Walk(func(x *m.Node) {
			if x.Kind == m.KOp && x.Name == "c_cnt" {
				statefulOp = true // (its result differs from run to run by design)
			}
		})
		if len(c.Tree.VarNames()) == 0 && !c.Try && !statefulOp {
			var streams [3][]string
			var refused [3]bool
			firstErr := false
			for k, ctx := range []*eval.Ctx{{VariableFetcher: &Fetcher{Log: &Log{}}}, nil, {}} {
				var o Outcome
				recs := runWithConsumer(eE, 1, capacity, func() { o = Safe(func() (eval.Value, error) { return eE.Eval(ctx) }) })
				if o.Panic != nil && k == 0 {
					return Violf("C12: Eval of a variable-free program panics\nconfig=%s src=%s\n%v", maskName(mask), src, o)
				}
				if k == 0 {
					firstErr = o.Err != nil
				}
				if o.Panic != nil || (o.Err != nil) != firstErr {
					streams[k] = nil // (evaluating without a context is not documented: refusing it is the engine's right)
					refused[k] = true
					continue
				}
				for _, rec := range recs {
					switch d := rec.ev.Data.(type) {
					case eval.OpEventData:
						streams[k] = append(streams[k], fmt.Sprintf("OP %s %v -> %v %v", d.OpName, d.Params, d.Res, d.Err != nil))
					case eval.LoopEventData:
						streams[k] = append(streams[k], fmt.Sprintf("LOOP %d %v", d.CurtIdx, rec.ev.Stack))
					}
				}
			}
			for k := 1; k < 3; k++ {
				if !refused[k] && strings.Join(streams[k], "\n") != strings.Join(streams[0], "\n") {
					return Violf("C12: the events of a variable-free program depend on the context it is evaluated with (%s)\nconfig=%s events=%d src=%s\nwith a context:\n%s\nwithout:\n%s", []string{"", "nil *Ctx", "empty Ctx"}[k], maskName(mask), c.Events, src, clip(strings.Join(streams[0], "\n"), 1500), clip(strings.Join(streams[k], "\n"), 1500))
				}
			}
			r.Class("variable-free-program-with-nil-context")
		}
		call := func(e *eval.Expr, f *Fetcher) Outcome {
			ctx := f.Ctx()
			switch c.CtxKind {
			case 1:
				ctx.Ctx = context.Background()
			case 2:
				cc, cancel := context.WithCancel(context.Background())
				cancel()
				ctx.Ctx = cc
			case 3:
				cc, cancel := context.WithDeadline(context.Background(), time.Unix(1, 0))
				defer cancel()
				ctx.Ctx = cc
			}
			return Safe(func() (eval.Value, error) {
				if c.Try {
					return e.TryEval(ctx)
				}
				return e.Eval(ctx)
			})
		}
		// every evaluation runs first; the events are looked at only when all of them have finished
		type evalRun struct {
			vars   map[string]interface{}
			calls  map[string]int64
			oP, oE Outcome
			traceP []m.Ev
			traceE []m.Ev
			recs   []evRec
		}
		runs := make([]*evalRun, evals)
		for k := 0; k < evals; k++ {
			run := &evalRun{vars: bindingOf(k), calls: logP.Calls()}
			logP.Reset()
			fP := &Fetcher{Vars: run.vars, Fail: u.Fail(), Avail: avail, Log: logP, Keys: ccP.VariableKeyMap}
			run.oP = call(eP, fP)
			run.traceP = append([]m.Ev(nil), logP.Ev...)
			logE.Reset()
			fE := &Fetcher{Vars: run.vars, Fail: u.Fail(), Avail: avail, Log: logE, Keys: ccE.VariableKeyMap}
			run.recs = runWithConsumer(eE, c.Consumer, capacity, func() { run.oE = call(eE, fE) })
			run.traceE = append([]m.Ev(nil), logE.Ev...)
			runs[k] = run
		}
		for k, run := range runs {
			oP, oE, recs := run.oP, run.oE, run.recs
			where := func() string {
				return fmt.Sprintf("config=%s events=%d consumer=%d try=%v available=%v evaluation %d of %d on the same program\nsrc=%s\ndump=%s\nbinding=%v", maskName(mask), c.Events, c.Consumer, c.Try, c.Avail, k+1, evals, src, dP, run.vars)
			}
			// (i) nothing changes
			if oE.Panic != nil || !SameOutcome(oP, oE) {
				return Violf("C12: event reporting changes the result\n%s\nwithout events=%v\nwith events=%v", where(), oP, oE)
			}
			if oP.Err != nil && !(oP.Val == nil && oE.Val == nil) && !m.EqualVal(oP.Val, oE.Val) {
				return Violf("C12: event reporting changes the value returned together with the error\n%s\nwithout events=%v (%v)\nwith events=%v (%v)", where(), oP.Val, oP.Err, oE.Val, oE.Err)
			}
			if !MatchTrace(run.traceE, run.traceP) {
				return Violf("C12: event reporting changes the fetches / operator calls\n%s\nwithout events=%v\nwith events=%v", where(), m.TraceStrings(run.traceP), m.TraceStrings(run.traceE))
			}
			// (iii) what the consumer holds after all evaluations is what it received
			var opEvents []m.Ev
			prevPos := int16(-1)
			for i, rec := range recs {
				switch rec.ev.EventType {
				case eval.LoopEvent:
					d, ok := rec.ev.Data.(eval.LoopEventData)
					if !ok {
						return Violf("C12: LOOP event %d carries %T\n%s", i, rec.ev.Data, where())
					}
					if d.CurtIdx <= prevPos {
						return Violf("C12: LOOP positions do not strictly increase: %d after %d\n%s", d.CurtIdx, prevPos, where())
					}
					prevPos = d.CurtIdx
					if rec.copied && !sameValues(rec.ev.Stack, rec.stackCopy) {
						return Violf("C12: the Stack of LOOP event %d changed after it was received (no private snapshot)\n%s\nat receipt=%v\nnow=%v", i, where(), rec.stackCopy, rec.ev.Stack)
					}
				case eval.OpExecEvent:
					d, ok := rec.ev.Data.(eval.OpEventData)
					if !ok {
						return Violf("C12: OP_EXEC event %d carries %T\n%s", i, rec.ev.Data, where())
					}
					if rec.copied && !sameValues(d.Params, rec.paramsCopy) {
						return Violf("C12: the arguments of OP_EXEC event %d (%s) changed after it was received\n%s\nat receipt=%v\nnow=%v", i, d.OpName, where(), rec.paramsCopy, d.Params)
					}
					args := make([]interface{}, len(d.Params))
					for k, p := range d.Params {
						args[k] = p
					}
					opEvents = append(opEvents, m.Ev{Op: d.OpName, Args: args, Res: d.Res, Err: d.Err})
				default:
					return Violf("C12: unknown event type %q\n%s", rec.ev.EventType, where())
				}
			}
			// (iv) the LOOP snapshots follow the operand-stack discipline
			if !c.Try {
				if why := loopStacksConsistent(recs, run.vars); why != "" {
					return Violf("C12: the Stack of a LOOP event is not the operand stack at that point: %s\n%s", why, where())
				}
			}
			// (ii) OP_EXEC events are exactly the operator applications of this evaluation (a caller
			// context that is already done: the engine documents no reaction to it, and if it ever
			// gets one - identical with and without events, see (i) - the reference would not know;
			// such runs are judged like TryEval runs, by the operators' own call log and self-consistency)
			if !c.Try && c.CtxKind < 2 {
				ref := &m.Env{Vars: run.vars, Fail: u.Fail(), Custom: customModel(), Calls: run.calls, Fast: mask&MaskFast != 0}
				_, rerr := ref.Eval(dt)
				if rerr != m.ErrOptionalFetch {
					if !MatchTrace(opEvents, ref.Apps) {
						return Violf("C12: the OP_EXEC events are not the operator applications of the evaluation (name, arguments as at call time, result)\n%s\nevents      =%v\napplications=%v", where(), m.TraceStrings(opEvents), m.TraceStrings(ref.Apps))
					}
				}
				for _, a := range ref.Apps {
					if len(a.Args) == 2 {
						binaryApps++
					}
				}
			} else {
				var custom []m.Ev
				for _, ev := range opEvents {
					for _, a := range ev.Args {
						if a == eval.DNE {
							return Violf("C12: an OP_EXEC event of TryEval carries a DNE argument: %s\n%s", ev.String(), where())
						}
					}
					if m.IsBuiltin(ev.Op) {
						f, _ := m.Builtin(ev.Op)
						want, werr := f(ev.Args)
						if (werr == nil) != (ev.Err == nil) || (werr == nil && !m.EqualVal(want, ev.Res)) {
							return Violf("C12: OP_EXEC event is not self-consistent: %s, the operator yields %s\n%s", ev.String(), refString(want, werr), where())
						}
					} else {
						custom = append(custom, ev)
					}
					if len(ev.Args) == 2 {
						binaryApps++
					}
				}
				var calls []m.Ev
				for _, ev := range run.traceE {
					if ev.Op != "" {
						calls = append(calls, ev)
					}
				}
				if !MatchTrace(custom, calls) {
					return Violf("C12: the OP_EXEC events of registered operators differ from the operators' own call log\n%s\nevents=%v\ncalls =%v", where(), m.TraceStrings(custom), m.TraceStrings(calls))
				}
			}
		}
	}
	if evals > 1 {
		r.Class("events-retained-across-evaluations")
	}
	r.Class(fmt.Sprintf("consumer-%d", c.Consumer))
	if c.Try {
		r.Class("tryeval")
	}
	if c.CtxKind >= 2 {
		r.Class("caller-context-already-done")
	}
	if binaryApps >= 2*len(c.Masks) {
		r.Class(">=2-binary-applications")
	}
	if binaryApps >= 2 && c.Consumer != 0 {
		r.NonTrivial(src+fmt.Sprint(describeU(u), c.Consumer, c.Events, c.Try, c.Avail), func() interface{} {
			return map[string]interface{}{"src": clip(src, 300), "consumer": c.Consumer, "events": c.Events, "try": c.Try}
		})
	}
	return nil
}

var propC12 = Prop[C12Case]{
	ID:    "C12",
	Rule:  "typed random expression (custom, stateful and failing operators, failing variables) x optimization subsets (4 per case quick, 16 thorough) x binding x {Eval, TryEval with an availability split} x {ReportEvent, Debug} x Ctx.Ctx {none, live, already cancelled, deadline passed} x consumer {synchronous reader copying on receipt; buffered channel drained after the call; reader that overwrites every Stack slice it receives}. Oracles: result, effect trace and Dump equal to the same case compiled without events; OP_EXEC events read after the evaluation equal, in order, the operator applications (name, arguments, result/error) that R/R_fast performs on the dumped tree (the final fold of a non-fast and/or with no absorbing operand is optional); TryEval: registered-operator events equal the operators' own call log, built-in events are self-consistent under the operator model, no DNE argument; events retained by the consumer equal the copies taken at receipt; LOOP positions strictly increase, and (Eval) the Stack snapshots follow the operand-stack discipline from one LOOP event to the next: first one empty, a leaf pushes its value, an operator replaces the arguments of its OP_EXEC event - the top of the snapshot - by its result, `if` pops the condition, the end-if marker changes nothing, a deciding boolean may drop operands below it. Non-trivial = at least two binary-operator applications and a consumer that is not the synchronous copying one; distinct by source + binding + consumer",
	Gen:   genC12,
	Check: checkC12,
}

func TestC12(t *testing.T)       { Run(t, propC12) }
func TestC12Replay(t *testing.T) { Replay(t, propC12) }
