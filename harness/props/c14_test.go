package props

import (
	"encoding/hex"
	"fmt"
	"strings"
	"testing"
	"unicode/utf8"

	"github.com/onheap/eval"
	"pgregory.net/rapid"

	m "verifharness/model"
)

// C14 – whitespace, comments and IndentByParentheses never change meaning.

type C14Case struct {
	U       Universe `json:"u"`
	Canon   string   `json:"canon"` // canonical rendering of the program ("" for soup cases)
	Infix   bool     `json:"infix,omitempty"`
	Mask    int      `json:"mask"`
	Layouts []string `json:"layouts,omitempty"` // re-layouts of Canon (same tokens, other white space / comments)
	DirMask int      `json:"dir_mask"`          // -1: none; else a directive for this subset is put in front of Layouts[0]
	DirVar  int      `json:"dir_variant,omitempty"`
	Soup    string   `json:"soup,omitempty"` // arbitrary text: formatter token preservation only
	// SoupHex: the same, for text that is not valid UTF-8 (a source is a Go string: any bytes) - hex-encoded so
	// that the case file holds the bytes exactly
	SoupHex string `json:"soup_hex,omitempty"`
	Origin  string `json:"origin,omitempty"`
}

var layoutSpaces = []string{"\u1680", "\u2000", "\u2009", "\u200a", "\u2028", "\u2029", "\u202f", "\u205f", "\u2003\u2028 ", " ", "  ", "\t", "\n", "\r\n", " ", " ", "　", "\u0085", " \n  ", "\v", "\f", " "}

var layoutComments = []string{"; c", ";; note (x) \"y\"", ";", "; ;;;; optimize:false", ";;;; optimize:false", ";;;; reordering:false, fast_evaluation:false", "; )(", ";; \"unterminated", ";;;; bogus directive", "; é　x", ";\t tab"}

// commentFragments: what a generated comment is made of - words, token look-alikes, and every
// white-space character that is not the line feed (a comment ends at the line feed only).
var commentFragments = []string{"c", "note", "(x)", "\"y\"", "40", ")", "(", "true", "x", ";", " ", "\u2028", "\u2029", "\u0085", "\r", "\v", "\f", "\u00a0", "\u3000", "\u1680", "\u2028 40", "\u2029(+ 1", "\u0085\"s", "\r 7 8", "\f)", "\v[1"}

func genComment(t *rapid.T) string {
	if rapid.Bool().Draw(t, "cmt_fixed") {
		return rapid.SampledFrom(layoutComments).Draw(t, "cmt")
	}
	c := rapid.SampledFrom([]string{";", "; ", ";;", ";;; "}).Draw(t, "cmt_head")
	for i, n := 0, rapid.IntRange(1, 4).Draw(t, "cmt_n"); i < n; i++ {
		c += rapid.SampledFrom(commentFragments).Draw(t, "cmt_frag")
	}
	return c
}

func needSeparator(prev, next string, infix bool) bool {
	if prev == "" {
		return false
	}
	pl := prev[len(prev)-1]
	if strings.ContainsRune("()[],", rune(pl)) || (pl == '"' && len(prev) >= 2) {
		return false
	}
	if strings.ContainsRune("()[],", rune(next[0])) {
		return false
	}
	return true
}

// relayout joins the tokens with random separators: nothing where the token rules
// allow it, any Unicode space, line breaks, comments (directive look-alikes only
// after the first token).
func relayout(t *rapid.T, toks []string, infix, minimal bool) string {
	var sb strings.Builder
	prev := ""
	for i, tk := range toks {
		need := needSeparator(prev, tk, infix)
		k := rapid.IntRange(0, 6).Draw(t, "sep")
		if minimal {
			k = 0
		}
		// the gap right behind a leading `!` (infix): a token that lexers tend to treat specially - a
		// directive look-alike there is still an ordinary comment
		if i == 1 && strings.HasPrefix(toks[0], "!") && !minimal && rapid.Bool().Draw(t, "afterbang") {
			sb.WriteString(rapid.SampledFrom([]string{" ", ""}).Draw(t, "afterbang_pre") + rapid.SampledFrom([]string{";;;; optimize:false", ";;;; reordering:false, fast_evaluation:false", ";;;; see ticket 42", ";;;; constant_folding: false"}).Draw(t, "afterbang_cmt") + "\n")
			sb.WriteString(tk)
			prev = tk
			continue
		}
		switch {
		case i == 0 && k >= 4:
			sb.WriteString(rapid.SampledFrom(layoutSpaces).Draw(t, "lead"))
		case i == 0:
		case k == 0 && !need:
		case k == 1 && !minimal:
			c := genComment(t)
			sb.WriteString(rapid.SampledFrom([]string{"", " ", "\n"}).Draw(t, "pre") + c + "\n" + rapid.SampledFrom([]string{"", "  ", "\t"}).Draw(t, "post"))
		case k == 0 || minimal:
			sb.WriteString(" ")
		default:
			sb.WriteString(rapid.SampledFrom(layoutSpaces).Draw(t, "sp"))
		}
		sb.WriteString(tk)
		prev = tk
	}
	if !minimal && rapid.Bool().Draw(t, "trail") {
		sb.WriteString(rapid.SampledFrom([]string{" ", "\n", " ; end", "\n;end   ", "\n;;;; optimize:false", " "}).Draw(t, "tr"))
	}
	return sb.String()
}

func genC14(t *rapid.T) C14Case {
	if rapid.IntRange(0, 4).Draw(t, "soup") == 0 {
		s := genSoup(t)
		if rapid.Bool().Draw(t, "withstr") {
			s += " \"" + genHostileString(t) + "\" " + genSoup(t)
		}
		if rapid.IntRange(0, 5).Draw(t, "badutf8") == 0 {
			// a small valid program around a string literal (or a comment) holding bytes that are not UTF-8
			bad := rapid.SampledFrom([]string{"caf\xe9", "\xff", "a\xc3", "\xe2\x82", "\xf0\x9f\x98", "ok\x80ok", "\xc0\xaf", "\xed\xa0\x80"}).Draw(t, "badbytes")
			src := rapid.SampledFrom([]string{`(= x "%s")`, `(in x ("a" "%s" "b"))`, `(and a (= x "%s") ; %s` + "\n b)", `(if a "%s" "z")`, `x = "%s"`, `"%s"`, `("%s" "%s")`}).Draw(t, "badshape")
			s = strings.ReplaceAll(src, "%s", bad)
			return C14Case{SoupHex: hex.EncodeToString([]byte(s)), DirMask: -1, Infix: rapid.Bool().Draw(t, "infix"), Origin: "soup-bad-utf8"}
		}
		return C14Case{Soup: s, DirMask: -1, Infix: rapid.Bool().Draw(t, "infix"), Origin: "soup"}
	}
	g := &G{t: t, GenCfg: GenCfg{
		Depth:    rapid.IntRange(1, depthMax(5, 7)).Draw(t, "depth"),
		MaxArity: rapid.IntRange(2, 4).Draw(t, "maxarity"),
		Failing:  rapid.IntRange(0, 3).Draw(t, "failing") == 0,
		Custom:   true, Consts: true, Aliases: true, StrBias: true,
	}}
	c := C14Case{Infix: rapid.IntRange(0, 3).Draw(t, "infix") == 0, Mask: rapid.IntRange(0, 15).Draw(t, "mask"), DirMask: -1}
	var tree *m.Node
	if c.Infix {
		ty := rootTy(t)
		tree = g.Program(ty)
		if ty == m.TBool && rapid.IntRange(0, 2).Draw(t, "bangroot") == 0 {
			tree = m.Op("!", tree) // the source then starts with `!`
		}
		normSymbolic(tree)
	} else {
		tree = wrapRoot(g.Program(rootTy(t)))
	}
	fixEmptyLists(tree)
	u := UniverseFor(t, tree, false)
	unicodeNames(t, tree, u)
	hostileLiterals(t, tree, 2)
	c.U = *u
	var toks []string
	if c.Infix {
		c.Canon = m.RenderInfix(tree, m.InfixOpts{})
		lt, _ := m.Lex(c.Canon)
		toks = m.TokTexts(lt)
	} else {
		c.Canon = m.Render(tree)
		toks = m.Tokens(tree)
	}
	c.Layouts = []string{relayout(t, toks, c.Infix, false), relayout(t, toks, c.Infix, false), relayout(t, toks, c.Infix, true)}
	if rapid.IntRange(0, 2).Draw(t, "directive") == 0 {
		c.DirMask = rapid.IntRange(0, 15).Draw(t, "dirmask")
		c.DirVar = rapid.IntRange(0, directiveVariants-1).Draw(t, "dirvar")
	}
	return c
}

func sameSeq(a, b []m.Tok) (bool, string) {
	for i := 0; i < len(a) || i < len(b); i++ {
		if i >= len(a) {
			return false, fmt.Sprintf("extra token %q at %d", b[i].Text, i)
		}
		if i >= len(b) {
			return false, fmt.Sprintf("missing token %q at %d", a[i].Text, i)
		}
		if a[i].Kind != b[i].Kind || a[i].Text != b[i].Text {
			return false, fmt.Sprintf("token %d: %q became %q", i, a[i].Text, b[i].Text)
		}
	}
	return true, ""
}

// formatterPreserves: IndentByParentheses(s), applied once, twice and three times,
// has exactly the tokens and comments of s, in order.
func formatterPreserves(s string) (string, *Violation) {
	orig := m.LexAll(s)
	cur := s
	first := ""
	for round := 1; round <= 3; round++ {
		f, o := SafeStr(func() string { return eval.IndentByParentheses(cur) })
		if o.Panic != nil {
			return "", Violf("C14: IndentByParentheses panics (application %d): %v\ninput=%q", round, o, cur)
		}
		if ok, why := sameSeq(orig, m.LexAll(f)); !ok {
			return "", Violf("C14: IndentByParentheses changes the tokens/comments (application %d): %s\ninput    =%q\nformatted=%q", round, why, s, f)
		}
		if round == 1 {
			first = f
		}
		cur = f
	}
	return first, nil
}

func c14Compile(c *C14Case, src string, mask int) (*eval.Expr, string, string, Outcome) {
	log := &Log{}
	cc, _ := NewConfig(&c.U, log, Build{Mask: mask, Infix: c.Infix})
	e, co := SafeCompile(cc, src)
	if co.Panic != nil || co.Err != nil {
		return nil, "", "", co
	}
	d, _ := SafeStr(func() string { return eval.Dump(e) })
	tb, _ := SafeStr(func() string { return eval.DumpTable(e, false) })
	return e, d, tb, co
}

func checkC14(c C14Case, r *Rec) *Violation {
	if c.SoupHex != "" {
		if b, err := hex.DecodeString(c.SoupHex); err == nil {
			c.Soup = string(b)
			r.Class("soup-with-bytes-that-are-not-utf8")
		}
	}
	if c.Soup != "" || c.Canon == "" {
		formatted, v := formatterPreserves(c.Soup)
		if v != nil {
			return v
		}
		// formatting never changes what the text compiles to
		cs := C14Case{U: Universe{RegMode: RegUndefined}, Infix: c.Infix}
		_, d1, t1, o1 := c14Compile(&cs, c.Soup, 0)
		_, d2, t2, o2 := c14Compile(&cs, formatted, 0)
		if o1.Panic != nil || o2.Panic != nil {
			return nil // C06's business
		}
		if (o1.Err == nil) != (o2.Err == nil) || d1 != d2 || t1 != t2 {
			return Violf("C14: formatting changed what the text compiles to\ninput=%q -> %v\n%s\nformatted=%q -> %v\n%s", c.Soup, o1, d1, formatted, o2, d2)
		}
		r.Class("soup")
		if o1.Err == nil {
			r.Class("soup-compiles")
		}
		toks := m.LexAll(c.Soup)
		special := false
		for _, tk := range toks {
			if tk.Kind == ';' || tk.Kind == 'u' || (tk.Kind == 's' && layoutSensitive(tk.Text[1:len(tk.Text)-1])) {
				special = true
			}
		}
		if special && len(toks) >= 2 {
			r.NonTrivial("soup|"+c.Soup, func() interface{} {
				return map[string]interface{}{"soup": clip(c.Soup, 200), "formatted": clip(formatted, 200)}
			})
		}
		return nil
	}

	e0, d0, t0, o0 := c14Compile(&c, c.Canon, c.Mask)
	if o0.Panic != nil || o0.Err != nil {
		return Violf("C14: the canonical rendering does not compile: %v\nsrc=%q infix=%v", o0, c.Canon, c.Infix)
	}
	canonToks := m.LexAll(c.Canon)
	evalBoth := func(e1 *eval.Expr, what, text string) *Violation {
		for k := 0; k < 2; k++ {
			vars := rebind(&c.U, k)
			f0 := &Fetcher{Vars: vars, Fail: c.U.Fail(), Log: &Log{}}
			f1 := &Fetcher{Vars: vars, Fail: c.U.Fail(), Log: &Log{}}
			a := Safe(func() (eval.Value, error) { return e0.Eval(f0.Ctx()) })
			b := Safe(func() (eval.Value, error) { return e1.Eval(f1.Ctx()) })
			if !SameOutcome(a, b) {
				return Violf("C14: %s evaluates differently\ncanonical=%q -> %v\n%s=%q -> %v", what, c.Canon, a, what, text, b)
			}
		}
		return nil
	}
	sensitive := false
	for i, l := range c.Layouts {
		// sanity of the generator (independent lexer): the re-layout has the canonical tokens
		lt, _ := m.Lex(l)
		ct, _ := m.Lex(c.Canon)
		if ok, _ := sameSeq(ct, lt); !ok {
			continue // not a re-layout of Canon (hand-edited corpus case): nothing to compare
		}
		if l != c.Canon {
			for _, tk := range m.LexAll(l) {
				if tk.Kind == ';' {
					sensitive = true
				}
			}
			for _, ch := range l {
				if ch > 127 {
					sensitive = true
				}
			}
		}
		e1, d1, t1, o1 := c14Compile(&c, l, c.Mask)
		if o1.Panic != nil || o1.Err != nil {
			return Violf("C14: a re-layout of a compiling program does not compile: %v\ncanonical=%q\nre-layout=%q", o1, c.Canon, l)
		}
		if d1 != d0 || t1 != t0 {
			return Violf("C14: white space / comments changed the compiled program\ncanonical=%q\n%s\nre-layout=%q\n%s", c.Canon, d0, l, d1)
		}
		if v := evalBoth(e1, "re-layout", l); v != nil {
			return v
		}
		// the formatter on the re-layout
		formatted, v := formatterPreserves(l)
		if v != nil {
			return v
		}
		e2, d2, t2, o2 := c14Compile(&c, formatted, c.Mask)
		if o2.Panic != nil || o2.Err != nil || d2 != d0 || t2 != t0 {
			return Violf("C14: the formatted text does not compile to the same program: %v\nre-layout=%q\nformatted=%q\n%s\nvs\n%s", o2, l, formatted, d0, d2)
		}
		if v := evalBoth(e2, "formatted text", formatted); v != nil {
			return v
		}
		// a leading directive is honoured: it gives the program of the subset it names
		if i == 0 && c.DirMask >= 0 {
			// (white space in front of the directive is white space between "nothing" and the first comment)
			lead := []string{"", "", " ", "\t\n", "\f", "\v", "\u00a0", "\u0085", "\u2003 ", "\u2028", "\u3000", "\r\n  ", "\u2029\u1680", "\n\n"}[hash64(l)%14]
			src := lead + directive(c.DirMask, c.DirVar) + l
			if lead != "" {
				r.Class("white-space-before-the-leading-directive")
			}
			_, dd, td, od := c14Compile(&c, src, c.Mask)
			_, dw, tw, ow := c14Compile(&c, c.Canon, c.DirMask)
			if od.Panic != nil || od.Err != nil || ow.Err != nil || dd != dw || td != tw {
				return Violf("C14: a directive before the first token is not honoured: %v\nsrc=%q\ncompiled:\n%s\nexpected (subset %s):\n%s", od, src, dd, maskName(c.DirMask), dw)
			}
			// ... and the formatter keeps it in front
			fsrc, v := formatterPreserves(src)
			if v != nil {
				return v
			}
			_, df, tf, of := c14Compile(&c, fsrc, c.Mask)
			if of.Panic != nil || of.Err != nil || df != dw || tf != tw {
				return Violf("C14: formatting a text with a leading directive changes the program: %v\nsrc=%q\nformatted=%q", of, src, fsrc)
			}
			r.Class("leading-directive")
		}
	}
	for _, tk := range canonToks {
		if tk.Kind == 's' && layoutSensitive(tk.Text[1:len(tk.Text)-1]) {
			sensitive = true
		}
	}
	if c.Infix {
		r.Class("infix")
	}
	if sensitive {
		r.NonTrivial(c.Canon+strings.Join(c.Layouts, "|"), func() interface{} {
			return map[string]interface{}{"canonical": clip(c.Canon, 200), "relayout": clip(c.Layouts[0], 300), "infix": c.Infix}
		})
	}
	return nil
}

var propC14 = Prop[C14Case]{
	ID:    "C14",
	Rule:  "(a) typed random programs (prefix and infix) with layout-sensitive string literals, rendered canonically and re-laid-out three times (one with minimal spacing): between any two tokens nothing where the token rules allow it, any of 22 Unicode white-space forms (every rune class unicode.IsSpace knows), line breaks, or ;-comments containing parentheses, quotes, token look-alikes, directive look-alikes and every white-space character other than the line feed (U+2028, U+2029, U+0085, CR, VT, FF ...) (proper ;;;; lines only after the first token), optional trailing comment; (b) a valid directive for a drawn subset put before the first token, with nothing or one of a dozen white-space forms in front of it; (c) token soups with string literals and comments that mostly do not compile. Oracles: every re-layout compiles to the same Dump/DumpTable and the same outcomes on 2 bindings; the directive-prefixed text equals the program of the named subset; for every input lexAll(IndentByParentheses^k(s)), k=1..3, equals lexAll(s) under the independent lexer (tokens and comments in order, comments modulo trailing white space, unterminated string = one pseudo-token) and the formatted text compiles to the same program (or fails likewise). Non-trivial = the re-layout contains a comment or a non-ASCII space, or a string literal with a layout-sensitive character; distinct by text",
	Gen:   genC14,
	Check: checkC14,
}

func TestC14(t *testing.T)       { Run(t, propC14) }
func TestC14Replay(t *testing.T) { Replay(t, propC14) }

// FuzzC14: any text through the formatter, token sequence preserved.
func FuzzC14(f *testing.F) {
	for _, s := range []string{`(= x "a  b")`, `(= x "a(b")`, `(= x "a;b")`, "(and a ; c\n b)", `a"b c"`, `"unterminated (`, "(in x (\"a\" \"b\")) ; list", "[1 2 3]", ";;;; optimize:false\n(or a b)", `f(a, "x y", [1 2])`, "(a\n;c\n;d\n(b))", "(= x \"caf\xe9\")", "(in x (\"\xff\" \"a\"))"} {
		f.Add(s)
	}
	f.Fuzz(func(t *testing.T, s string) {
		if len(s) > 2000 {
			return
		}
		c := C14Case{Soup: s, DirMask: -1, Origin: "native-fuzz"}
		if !utf8.ValidString(s) {
			c = C14Case{SoupHex: hex.EncodeToString([]byte(s)), DirMask: -1, Origin: "native-fuzz"}
		}
		if s == "" {
			return
		}
		wdStart("C14", c, 120e9)
		v := checkC14(c, newRec("C14"))
		wdStop()
		if v != nil {
			t.Fatalf("VIOLATION-DETAIL property=C14\n%s", v.Msg)
		}
	})
}
