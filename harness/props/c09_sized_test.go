//go:build verif

package props

import "testing"

// the size builder of C09 must produce exactly the requested number of nodes
func TestC09SizedBuilder(t *testing.T) {
	for n := 3; n <= 40000; n++ {
		if n > 700 && n%97 != 0 && (n < 16370 || n > 16400) && (n < 32750 || n > 32790) {
			continue
		}
		tr := sized("+", "*", n)
		if got := countNodes(tr); got != n {
			t.Fatalf("sized(%d) has %d nodes", n, got)
		}
		if mx := maxOperands(tr); mx > 127 {
			t.Fatalf("sized(%d) has an operator with %d operands", n, mx)
		}
	}
}
