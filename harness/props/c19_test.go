package props

import (
	"fmt"
	"strconv"
	"strings"
	"testing"

	"pgregory.net/rapid"

	m "verifharness/model"
)

// C19 – version and date encodings preserve order.

type C19Case struct {
	Kind   string `json:"kind"` // version | date | reject
	A      string `json:"a"`
	B      string `json:"b"`
	N      int    `json:"n,omitempty"`      // valid length, 0 = default (3)
	OpA    string `json:"op_a"`             // operator name used for A
	OpB    string `json:"op_b"`             // operator name used for B
	Layout string `json:"layout,omitempty"` // "" = the operator's default layout
	// reject: Expr is a single call that must fail
	Expr string `json:"expr,omitempty"`
}

var versionOps = []string{"version", "t_version", "to_version"}

func genVersion(t *rapid.T, n int) []int64 {
	k := rapid.IntRange(1, n).Draw(t, "ncomp")
	out := make([]int64, k)
	for i := range out {
		out[i] = rapid.SampledFrom([]int64{0, 1, 2, 9, 10, 99, 100, 9998, 9999, 5000}).Draw(t, "comp")
		if rapid.IntRange(0, 3).Draw(t, "anycomp") == 0 {
			out[i] = rapid.Int64Range(0, 9999).Draw(t, "compv")
		}
	}
	return out
}

func versionString(t *rapid.T, comps []int64) string {
	parts := make([]string, len(comps))
	for i, c := range comps {
		parts[i] = strconv.FormatInt(c, 10)
		if rapid.IntRange(0, 7).Draw(t, "leadzero") == 0 {
			parts[i] = strings.Repeat("0", rapid.IntRange(1, 3).Draw(t, "zeros")) + parts[i]
		}
	}
	return strings.Join(parts, ".")
}

func compareVersions(a, b []int64, n int) int {
	for i := 0; i < n; i++ {
		var x, y int64
		if i < len(a) {
			x = a[i]
		}
		if i < len(b) {
			y = b[i]
		}
		if x != y {
			if x < y {
				return -1
			}
			return 1
		}
	}
	return 0
}

var dateOps1 = map[string]string{ // operator -> default layout (one-argument forms)
	"date": m.LayoutDate, "to_date": m.LayoutDate, "td_date": m.LayoutDate,
	"datetime": m.LayoutDatetime, "to_datetime": m.LayoutDatetime, "td_time": m.LayoutDatetime,
}
var dateOps2 = []string{"date", "to_date", "datetime", "to_datetime", "t_time", "t_date"} // accept an explicit layout

func genCivil(t *rapid.T, withTime bool) m.Civil {
	var c m.Civil
	c.Y = rapid.SampledFrom([]int64{1, 4, 100, 400, 1600, 1900, 1969, 1970, 1999, 2000, 2020, 2021, 2024, 2038, 2100, 9999}).Draw(t, "year")
	if rapid.Bool().Draw(t, "anyyear") {
		c.Y = rapid.Int64Range(1, 9999).Draw(t, "yearv")
	}
	c.M = rapid.Int64Range(1, 12).Draw(t, "month")
	switch rapid.IntRange(0, 3).Draw(t, "daykind") {
	case 0:
		c.D = 1
	case 1:
		c.D = m.DaysIn(c.M, c.Y)
	default:
		c.D = rapid.Int64Range(1, m.DaysIn(c.M, c.Y)).Draw(t, "day")
	}
	if rapid.IntRange(0, 5).Draw(t, "leapday") == 0 {
		for !m.IsLeap(c.Y) {
			c.Y++
		}
		if c.Y > 9999 {
			c.Y = 9996
		}
		c.M, c.D = 2, 29
	}
	if withTime {
		c.H = rapid.SampledFrom([]int64{0, 23, 12}).Draw(t, "hour")
		c.Mi = rapid.SampledFrom([]int64{0, 59, 30}).Draw(t, "min")
		c.S = rapid.SampledFrom([]int64{0, 59, 1}).Draw(t, "sec")
		if rapid.Bool().Draw(t, "anytime") {
			c.H, c.Mi, c.S = rapid.Int64Range(0, 23).Draw(t, "h"), rapid.Int64Range(0, 59).Draw(t, "mi"), rapid.Int64Range(0, 59).Draw(t, "s")
		}
	}
	return c
}

func layoutHasTime(l string) bool { return l != m.LayoutDate && l != m.LayoutDMY && l != m.LayoutYDM }
func layoutHasSeconds(l string) bool {
	return l == m.LayoutDatetime || l == m.LayoutRFC3339 || l == m.LayoutSMH
}

var rejectExprs = []string{
	`(version "10000")`, `(version "1.10000.2")`, `(version "1.2.10000")`, `(to_version "1.x.3")`, `(t_version "a")`, `(version "")`, `(version "1..2")`,
	`(version ".1")`, `(version "1.2.")`, `(version "1.")`, `(version "1.2.3." 4)`, `(version "." 2)`, `(version "1.2.." 4)`, `(to_version "0." 2)`, `(version "1.2.3" 0)`, `(version "1.2.3" 5)`, `(version "1.2.3" -1)`, `(version "1.2.3" "3")`, `(version 123)`, `(version)`, `(version "1" 2 3)`,
	`(version "9223372036854775808")`, `(version "1.18446744073709551617.3")`, `(version "18446744073709551616")`, `(version "1.2.18446744073709551615")`,
	`(version "9223372036854785807.1")`, `(version "00000000000000000000010000")`, `(version "340282366920938463463374607431768211457.1")`,
	`(version "1.2.3.10000" 4)`, `(version "1 .2")`, `(version "1.2e3")`, `(version "99999999999999999999")`,
	`(date "2021-13-01")`, `(date "2021-02-30")`, `(date "2023-02-29")`, `(date "2021-00-10")`, `(date "2021-01-00")`, `(date "2021-01-32")`, `(date "21-01-01")`,
	`(date "2021/01/01")`, `(date "garbage")`, `(date "")`, `(date "2021-01-01 10:00:00")`, `(date "2021-01-01x")`, `(date " 2021-01-01")`,
	`(datetime "2021-01-01")`, `(datetime "2021-01-01 24:00:00")`, `(datetime "2021-01-01 10:60:00")`, `(datetime "2021-01-01 10:00:60")`, `(datetime "2021-01-01T10:00:00")`,
	`(date "01/02/2021" "2006-01-02")`, `(date "2021-01-01" "02/01/2006")`, `(date "31/02/2021" "02/01/2006")`, `(t_date "2021-01-01")`, `(t_time "x" "2006-01-02")`,
	`(td_date "2021-01-01" "2006-01-02")`, `(td_time "2021-01-01")`, `(date 20210101)`, `(date "2021-01-01" 5)`, `(date)`, `(date "a" "b" "c")`,
	// a version is digits and dots
	`(to_version "v1.2.3")`, `(version "V10.0.1")`, `(t_version "v1")`, `(version "1.v2")`, `(version "1.2.3-rc1")`, `(version "1.2.3+5")`, `(version "1,2")`, `(version "1.2 ")`, `(version " 1.2")`,
	// an explicitly given layout is the layout, the empty one included; white space is text like any other
	`(date "2021-01-01" "")`, `(datetime "2021-01-01 10:00:00" "")`, `(to_date "x" "")`, `(t_date "2021-01-01" "")`, `(to_datetime " " "")`,
	`(date "2021-01-01 ")`, `(datetime " 2021-01-01 10:00:00")`, `(td_date "2021-01-01\t")`, `(date "2021-01-01" " 2006-01-02")`, `(date " 2021-01-01" "2006-01-02")`,
	`(to_datetime "2021-01-01T10:00:00+25:00" "2006-01-02T15:04:05Z07:00")`, `(t_time "Foo 2 2021 10:00" "Jan 2 2006 15:04")`,
}

func genC19(t *rapid.T) C19Case {
	switch pickW(t, "kind", 5, 5, 1) {
	case 0:
		n := rapid.IntRange(0, 4).Draw(t, "validlen")
		eff := n
		if n == 0 {
			eff = 3
		}
		a := genVersion(t, eff)
		var b []int64
		switch rapid.IntRange(0, 4).Draw(t, "relation") {
		case 0: // independent
			b = genVersion(t, eff)
		case 1: // share a prefix, differ in one component
			b = append([]int64{}, a...)
			i := rapid.IntRange(0, len(b)-1).Draw(t, "diffat")
			b[i] = rapid.SampledFrom([]int64{0, 1, 9998, 9999, 5000}).Draw(t, "diffval")
		case 2: // carry boundary: x.9999 vs (x+1).0
			b = append([]int64{}, a...)
			if len(b) >= 2 {
				i := rapid.IntRange(0, len(b)-2).Draw(t, "carryat")
				if b[i] < 9999 {
					a[i+1], b[i], b[i+1] = 9999, b[i]+1, 0
				}
			}
		case 3: // different component counts (trailing zeros / missing components)
			b = append([]int64{}, a...)
			if len(b) < eff {
				b = append(b, rapid.SampledFrom([]int64{0, 0, 1}).Draw(t, "extra"))
			} else if len(b) > 1 {
				b = b[:len(b)-1]
			}
		default: // equal
			b = append([]int64{}, a...)
		}
		return C19Case{Kind: "version", A: versionString(t, a), B: versionString(t, b), N: n,
			OpA: rapid.SampledFrom(versionOps).Draw(t, "opa"), OpB: rapid.SampledFrom(versionOps).Draw(t, "opb")}
	case 1:
		c := C19Case{Kind: "date"}
		if rapid.Bool().Draw(t, "customlayout") {
			c.Layout = rapid.SampledFrom(m.KnownLayouts).Draw(t, "layout")
			c.OpA = rapid.SampledFrom(dateOps2).Draw(t, "opa")
			c.OpB = rapid.SampledFrom(dateOps2).Draw(t, "opb")
		} else {
			names := []string{"date", "to_date", "td_date"}
			if rapid.Bool().Draw(t, "datetime") {
				names = []string{"datetime", "to_datetime", "td_time"}
			}
			c.OpA = rapid.SampledFrom(names).Draw(t, "opa")
			c.OpB = rapid.SampledFrom(names).Draw(t, "opb")
		}
		layout := c.Layout
		if layout == "" {
			layout = dateOps1[c.OpA]
		}
		a := genCivil(t, layoutHasTime(layout))
		b := genCivil(t, layoutHasTime(layout))
		if rapid.Bool().Draw(t, "near") { // the pair lies within one day
			b = a
			if layoutHasTime(layout) {
				b.H, b.Mi = rapid.Int64Range(0, 23).Draw(t, "h2"), rapid.Int64Range(0, 59).Draw(t, "mi2")
			} else if b.D < m.DaysIn(b.M, b.Y) {
				b.D++
			}
		}
		if !layoutHasSeconds(layout) {
			a.S, b.S = 0, 0
		}
		if layout == m.LayoutRFC3339 {
			a.Off = rapid.SampledFrom([]int64{0, 3600, -18000, 19800, 50400, -43200}).Draw(t, "offa")
			b.Off = rapid.SampledFrom([]int64{0, 3600, -18000, 19800, 50400, -43200}).Draw(t, "offb")
		}
		c.A, c.B = m.FormatCivil(a, layout), m.FormatCivil(b, layout)
		// texts that are valid but not what formatting would print: a fractional second after
		// the seconds field, a zero offset written +00:00 / -00:00
		noncanon := func(s string, civ m.Civil, label string) string {
			switch rapid.IntRange(0, 5).Draw(t, label) {
			case 0:
				if layoutHasSeconds(layout) {
					fr := rapid.SampledFrom([]string{".5", ",25", ".123", ".999999999", ".000000001", ".123456789123"}).Draw(t, label+"_frac")
					sec := m.FormatCivil(civ, m.LayoutDatetime)[17:19]
					switch layout {
					case m.LayoutDatetime:
						return s + fr
					case m.LayoutRFC3339:
						return s[:19] + fr + s[19:]
					case m.LayoutSMH:
						return s[:11] + sec + fr + s[13:]
					}
				}
			case 1:
				if layout == m.LayoutRFC3339 && strings.HasSuffix(s, "Z") {
					return s[:len(s)-1] + rapid.SampledFrom([]string{"+00:00", "-00:00"}).Draw(t, label+"_zero")
				}
			}
			return s
		}
		c.A, c.B = noncanon(c.A, a, "noncanon_a"), noncanon(c.B, b, "noncanon_b")
		return c
	default:
		if rapid.Bool().Draw(t, "hugecomp") {
			// a component of 5..40 digits whose value is >= 10000, at a drawn position within the valid length
			nd := rapid.IntRange(5, 40).Draw(t, "ndigits")
			d := make([]byte, nd)
			for i := range d {
				d[i] = byte('0' + rapid.IntRange(0, 9).Draw(t, "digit"))
			}
			if d[0] == '0' {
				d[0] = '1'
			}
			parts := []string{"1", "2", "3"}
			parts[rapid.IntRange(0, 2).Draw(t, "hugeat")] = string(d)
			return C19Case{Kind: "reject", Expr: `(` + rapid.SampledFrom(versionOps).Draw(t, "op") + ` "` + strings.Join(parts, ".") + `")`}
		}
		if rapid.Bool().Draw(t, "emptycomp") {
			// an empty component at a drawn place - the front, the middle, the END - of a text that has no
			// more components than the valid length in effect
			n := rapid.IntRange(2, 4).Draw(t, "ec_len")
			k := rapid.IntRange(1, n).Draw(t, "ec_parts")
			parts := make([]string, k)
			for i := range parts {
				parts[i] = fmt.Sprint(rapid.IntRange(0, 12).Draw(t, "ec_val"))
			}
			parts[rapid.IntRange(0, k-1).Draw(t, "ec_at")] = ""
			if k == 1 {
				parts = []string{parts[0], ""} // "", "." are in the fixed list; here: "."
			}
			if rapid.Bool().Draw(t, "ec_trailing") && len(parts) < n {
				parts = append(parts, "")
				for i := range parts[:len(parts)-1] {
					if parts[i] == "" {
						parts[i] = "7"
					}
				}
			}
			return C19Case{Kind: "reject", Expr: fmt.Sprintf(`(%s "%s" %d)`, rapid.SampledFrom(versionOps).Draw(t, "op"), strings.Join(parts, "."), n)}
		}
		return C19Case{Kind: "reject", Expr: rapid.SampledFrom(rejectExprs).Draw(t, "reject")}
	}
}

func sign(x int64) int {
	switch {
	case x < 0:
		return -1
	case x > 0:
		return 1
	}
	return 0
}

func splitVersion(s string) []int64 {
	var out []int64
	for _, p := range strings.Split(s, ".") {
		v, _ := strconv.ParseInt(p, 10, 64)
		out = append(out, v)
	}
	return out
}

func checkC19(c C19Case, r *Rec) *Violation {
	evalInt := func(src string, mask int) (int64, Outcome) {
		o := evalSrc(src, nil, mask)
		if o.Panic != nil || o.Err != nil {
			return 0, o
		}
		v, ok := o.Val.(int64)
		if !ok {
			o.Err = fmt.Errorf("result is %T, not int64", o.Val)
		}
		return v, o
	}
	evalBool := func(src string, mask int) (bool, Outcome) {
		o := evalSrc(src, nil, mask)
		if o.Panic != nil || o.Err != nil {
			return false, o
		}
		v, ok := o.Val.(bool)
		if !ok {
			o.Err = fmt.Errorf("result is %T, not bool", o.Val)
		}
		return v, o
	}
	switch c.Kind {
	case "reject":
		for _, mask := range []int{0, 15} {
			o := evalSrc(c.Expr, nil, mask)
			if o.Panic != nil {
				return Violf("C19: %s panics: %v", c.Expr, o)
			}
			if o.Err == nil {
				return Violf("C19: %s must be rejected but evaluates to %v (config %s)", c.Expr, o, maskName(mask))
			}
			if strings.HasPrefix(o.Err.Error(), "COMPILE:") {
				return Violf("C19: %s makes Compile fail; the error must surface from Eval: %v", c.Expr, o.Err)
			}
		}
		r.Class("rejection")
		r.NonTrivial(c.Expr, func() interface{} { return map[string]interface{}{"expr": c.Expr, "expected": "error"} })
		return nil

	case "version":
		n := c.N
		eff := n
		if n == 0 {
			eff = 3
		}
		call := func(op, s string) string {
			if n == 0 {
				return fmt.Sprintf(`(%s "%s")`, op, s)
			}
			return fmt.Sprintf(`(%s "%s" %d)`, op, s, n)
		}
		ea, eb := call(c.OpA, c.A), call(c.OpB, c.B)
		va, vb := splitVersion(c.A), splitVersion(c.B)
		want := compareVersions(va, vb, eff)
		for _, mask := range []int{0, 15} {
			ia, oa := evalInt(ea, mask)
			ib, ob := evalInt(eb, mask)
			if oa.Panic != nil || oa.Err != nil || ob.Panic != nil || ob.Err != nil {
				return Violf("C19: a version in the stated domain is rejected\n%s -> %v\n%s -> %v", ea, oa, eb, ob)
			}
			// the encoding itself equals the positional model
			ma, _ := m.VersionEncode(c.A, eff)
			mb, _ := m.VersionEncode(c.B, eff)
			if ia != ma || ib != mb {
				return Violf("C19: version encoding differs from base-10000 positional value\n%s -> %d (model %d)\n%s -> %d (model %d)", ea, ia, ma, eb, ib, mb)
			}
			got := 0
			if ia < ib {
				got = -1
			} else if ia > ib {
				got = 1
			}
			if got != want {
				return Violf("C19: encoded versions compare %d but the versions compare %d component-wise (valid length %d)\n%s -> %d\n%s -> %d", got, want, eff, ea, ia, eb, ib)
			}
			// and through the engine's own comparison operators
			for _, cmp := range []struct {
				op   string
				want bool
			}{{"<", want < 0}, {"=", want == 0}, {">", want > 0}, {"<=", want <= 0}, {"!=", want != 0}, {">=", want >= 0}} {
				src := fmt.Sprintf("(%s %s %s)", cmp.op, ea, eb)
				b, o := evalBool(src, mask)
				if o.Panic != nil || o.Err != nil || b != cmp.want {
					return Violf("C19: %s evaluates to %v (config %s); component-wise comparison gives %v", src, o, maskName(mask), cmp.want)
				}
				// the same with one text, or both, arriving through a variable (a literal conversion on one
				// side is a constant the optimizer may fold; the other side is not)
				vcall := func(op, v string) string {
					if n == 0 {
						return fmt.Sprintf("(%s %s)", op, v)
					}
					return fmt.Sprintf("(%s %s %d)", op, v, n)
				}
				for _, vsrc := range []string{
					fmt.Sprintf("(%s %s %s)", cmp.op, ea, vcall(c.OpB, "vb")),
					fmt.Sprintf("(%s %s %s)", cmp.op, vcall(c.OpA, "va"), eb),
					fmt.Sprintf("(%s %s %s)", cmp.op, vcall(c.OpA, "va"), vcall(c.OpB, "vb")),
				} {
					ov := evalSrc(vsrc, map[string]interface{}{"va": c.A, "vb": c.B}, mask)
					if bv, isBool := ov.Val.(bool); ov.Panic != nil || ov.Err != nil || !isBool || bv != cmp.want {
						return Violf("C19: %s with va=%q vb=%q evaluates to %v (config %s); component-wise comparison gives %v", vsrc, c.A, c.B, ov, maskName(mask), cmp.want)
					}
				}
			}
		}
		first := -1
		for i := 0; i < eff; i++ {
			var x, y int64
			if i < len(va) {
				x = va[i]
			}
			if i < len(vb) {
				y = vb[i]
			}
			if x != y {
				first = i
				break
			}
		}
		carry := false
		for i := 0; i+1 < len(va) && i+1 < len(vb); i++ {
			if (va[i+1] == 9999 && vb[i+1] == 0) || (vb[i+1] == 9999 && va[i+1] == 0) {
				carry = true
			}
		}
		r.Class(fmt.Sprintf("version:validlen=%d", n))
		if first >= 1 || len(va) != len(vb) || carry {
			r.NonTrivial("v|"+c.A+"|"+c.B+"|"+strconv.Itoa(n), func() interface{} {
				return map[string]interface{}{"a": ea, "b": eb, "componentwise": want}
			})
		}
		return nil

	case "date":
		layoutA, layoutB := c.Layout, c.Layout
		call := func(op, s string) string {
			if c.Layout == "" {
				return fmt.Sprintf(`(%s "%s")`, op, s)
			}
			return fmt.Sprintf(`(%s "%s" "%s")`, op, s, c.Layout)
		}
		if c.Layout == "" {
			layoutA, layoutB = dateOps1[c.OpA], dateOps1[c.OpB]
		}
		ca, okA := m.ParseCivil(c.A, layoutA)
		cb, okB := m.ParseCivil(c.B, layoutB)
		if !okA || !okB {
			return nil // hand-written corpus case outside the generator's domain
		}
		ea, eb := call(c.OpA, c.A), call(c.OpB, c.B)
		for _, mask := range []int{0, 15} {
			ia, oa := evalInt(ea, mask)
			ib, ob := evalInt(eb, mask)
			if oa.Panic != nil || oa.Err != nil || ob.Panic != nil || ob.Err != nil {
				return Violf("C19: a well-formed date is rejected\n%s -> %v\n%s -> %v", ea, oa, eb, ob)
			}
			if ia != ca.Unix() || ib != cb.Unix() {
				return Violf("C19: date encoding is not the UTC Unix time\n%s -> %d (civil arithmetic %d)\n%s -> %d (civil arithmetic %d)", ea, ia, ca.Unix(), eb, ib, cb.Unix())
			}
			want := sign(ca.Unix() - cb.Unix())
			for _, cmp := range []struct {
				op   string
				want bool
			}{{"<", want < 0}, {"=", want == 0}, {">", want > 0}, {"<=", want <= 0}, {">=", want >= 0}} {
				src := fmt.Sprintf("(%s %s %s)", cmp.op, ea, eb)
				b, o := evalBool(src, mask)
				if o.Panic != nil || o.Err != nil || b != cmp.want {
					return Violf("C19: %s evaluates to %v; chronological order gives %v", src, o, cmp.want)
				}
				vcall := func(op, v string) string {
					if c.Layout == "" {
						return fmt.Sprintf("(%s %s)", op, v)
					}
					return fmt.Sprintf(`(%s %s "%s")`, op, v, c.Layout)
				}
				for _, vsrc := range []string{
					fmt.Sprintf("(%s %s %s)", cmp.op, ea, vcall(c.OpB, "vb")),
					fmt.Sprintf("(%s %s %s)", cmp.op, vcall(c.OpA, "va"), eb),
				} {
					ov := evalSrc(vsrc, map[string]interface{}{"va": c.A, "vb": c.B}, mask)
					if bv, isBool := ov.Val.(bool); ov.Panic != nil || ov.Err != nil || !isBool || bv != cmp.want {
						return Violf("C19: %s with va=%q vb=%q evaluates to %v (config %s); chronological order gives %v", vsrc, c.A, c.B, ov, maskName(mask), cmp.want)
					}
				}
			}
		}
		r.Class("date:layout=" + layoutA)
		d := ca.Unix() - cb.Unix()
		if d < 0 {
			d = -d
		}
		if d < 86400 || (ca.M == 2 && ca.D == 29) || (cb.M == 2 && cb.D == 29) {
			r.NonTrivial("d|"+ea+"|"+eb, func() interface{} {
				return map[string]interface{}{"a": ea, "b": eb, "unix_a": ca.Unix(), "unix_b": cb.Unix()}
			})
		}
		return nil
	}
	return nil
}

func sweepC19(tier string, shard, shards int, emit func(C19Case)) {
	if shard != 0 {
		return
	}
	for _, e := range rejectExprs {
		emit(C19Case{Kind: "reject", Expr: e})
	}
	// boundary dates against each other, in every layout that can write them
	bounds := []m.Civil{{Y: 1, M: 1, D: 1}, {Y: 1, M: 1, D: 1, S: 1}, {Y: 1, M: 1, D: 2}, {Y: 1969, M: 12, D: 31, H: 23, Mi: 59, S: 59}, {Y: 1970, M: 1, D: 1},
		{Y: 1970, M: 1, D: 1, S: 1}, {Y: 2000, M: 2, D: 29}, {Y: 2038, M: 1, D: 19, H: 3, Mi: 14, S: 8}, {Y: 9999, M: 12, D: 31, H: 23, Mi: 59, S: 59}, {Y: 1, M: 1, D: 1, H: 8, Off: 8 * 3600}}
	for _, layout := range m.KnownLayouts {
		ops := []string{"date", "to_datetime", "t_time"}
		for i, a := range bounds {
			for j, b := range bounds {
				if !layoutHasTime(layout) {
					a.H, a.Mi, a.S, b.H, b.Mi, b.S = 0, 0, 0, 0, 0, 0
				}
				if !layoutHasSeconds(layout) {
					a.S, b.S = 0, 0
				}
				if layout != m.LayoutRFC3339 {
					if a.Off != 0 || b.Off != 0 {
						continue
					}
				}
				emit(C19Case{Kind: "date", A: m.FormatCivil(a, layout), B: m.FormatCivil(b, layout), Layout: layout, OpA: ops[i%3], OpB: ops[j%3]})
			}
		}
	}
	for i, a := range bounds[:9] {
		a.H, a.Mi, a.S = 0, 0, 0
		emit(C19Case{Kind: "date", A: m.FormatCivil(a, m.LayoutDate), B: m.FormatCivil(bounds[(i+1)%9], m.LayoutDate)[:10], OpA: "date", OpB: "td_date"})
		emit(C19Case{Kind: "date", A: m.FormatCivil(bounds[i], m.LayoutDatetime), B: m.FormatCivil(bounds[(i+2)%9], m.LayoutDatetime), OpA: "datetime", OpB: "td_time"})
	}
	// every ordered pair over a small grid of 1..4-component versions at every valid length
	comps := []string{"0", "1", "9999"}
	var versions []string
	var build func(prefix string, depth int)
	build = func(prefix string, depth int) {
		if prefix != "" {
			versions = append(versions, prefix)
		}
		if depth == 0 {
			return
		}
		for _, c := range comps {
			p := c
			if prefix != "" {
				p = prefix + "." + c
			}
			build(p, depth-1)
		}
	}
	maxDepth := 3
	if tier == "thorough" {
		maxDepth = 4
	}
	build("", maxDepth)
	for n := 0; n <= 4; n++ {
		eff := n
		if n == 0 {
			eff = 3
		}
		for i, a := range versions {
			if strings.Count(a, ".")+1 > eff {
				continue
			}
			for j, b := range versions {
				if strings.Count(b, ".")+1 > eff || (tier != "thorough" && (i+j)%3 != 0) {
					continue
				}
				emit(C19Case{Kind: "version", A: a, B: b, N: n, OpA: versionOps[(i+j)%3], OpB: versionOps[(i*7+j)%3]})
			}
		}
	}
}

var propC19 = Prop[C19Case]{
	ID:    "C19",
	Rule:  "pairs of versions with 1..N components in 0..9999 (N = valid length 1..4 or default), biased to shared prefixes, single differing component, carry boundaries (x.9999 vs x+1.0), different component counts, leading zeros; pairs of civil timestamps (years 1..9999, leap days, month ends, pairs within one day) formatted by the harness in the default and in custom layouts incl. numeric zone offsets, through every date operator name; a fixed list of rejection cases. Oracles: sign(enc(a)-enc(b)) = component-wise comparison, enc = positional base-10000 model, the engine's own < = > <= != on the encodings; dates = hand-written days-from-civil arithmetic and chronological order; every rejection case errors at Eval (not at Compile). Sweep: all ordered pairs over {0,1,9999}^(1..3|4) at every valid length. Non-trivial = versions differing first at a position > 1, or with different component counts, or straddling a carry boundary; dates within one day of each other or on a leap day; rejection cases; distinct by the pair",
	Gen:   genC19,
	Check: checkC19,
	Sweep: sweepC19,
}

func TestC19(t *testing.T)       { Run(t, propC19) }
func TestC19Replay(t *testing.T) { Replay(t, propC19) }
