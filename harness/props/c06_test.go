package props

import (
	"fmt"
	"os"
	"path/filepath"
	"strings"
	"sync"
	"testing"
	"unicode/utf8"

	"github.com/onheap/eval"
	"pgregory.net/rapid"

	m "verifharness/model"
)

// C06 – Compile and evaluation are total: result or error, never panic or hang.

type C06Case struct {
	Src      string `json:"src"`
	Infix    bool   `json:"infix,omitempty"`
	Mask     int    `json:"mask"`
	Undef    bool   `json:"undef,omitempty"`
	Events   int    `json:"events,omitempty"`
	Binds    []int  `json:"binds,omitempty"`
	Prefixes bool   `json:"prefixes,omitempty"` // also compile every prefix of Src
	NoDump   bool   `json:"nodump,omitempty"`   // huge programs: Dump is quadratic, not exercised
	NilMaps  bool   `json:"nil_maps,omitempty"` // the Config is a struct literal: maps the program does not need are nil
	Origin   string `json:"origin,omitempty"`
}

var soupNames = []string{"a", "b", "x", "y", "i0", "b0", "s0", "li0", "ls0", "a.b", "ünï", "v_1", "n", "abc日", "日本", "ab😀", "größe_é", "日本語"}

var soupVocab = func() []string {
	v := []string{"(", ")", "(", ")", "(", ")", "[", "]", ",", ",",
		"if", "let", "any", "all", "map", "filter", "reduce", "collect",
		"true", "false", "Ki", "Ks", "Kl", "Kset", "Ksset", "Knil", "Kf", "Kraw", "Kbig", "Kempty",
		"c_id", "c_fail", "c_sum", "c_cnt",
		"!x", "!", "a!", "1a", ".a", "a.", "a..b", "!!a", "!=", "!(", "-", "--1", "+",
		"0", "1", "-1", "+1", "007", "2", "3", "9223372036854775807", "9223372036854775808", "-9223372036854775808", "1e3", "0x10",
		`"a"`, `""`, `"a b"`, `"x;y"`, `"(`, `"`, `"1.2.3"`, `"2021-01-01"`, `")"`,
		"; c\n", ";;;; optimize:false\n", ";;;; bogus\n", ";;;; reordering:maybe\n", ";;;; a:b:c\n", ";", ";;;;\n", ";;;; fast_evaluation:true, constant_folding:false\n",
		" ", "　", "\n", "\t", "\\", "'", "#", "é", "\x00", "�", "😀",
	}
	v = append(v, soupNames...)
	v = append(v, m.BuiltinNames...)
	return v
}()

var soupSeps = []string{" ", " ", " ", "", "\n", "\t", " ", "  "}

// hostile values bound to variables: every supported type and several unsupported ones
var hostilePool = []interface{}{
	int64(0), int64(1), int64(-1), int64(7), true, false, "a", "", "1.2.3", "2021-01-01",
	[]int64{1, 2}, []int64{}, []string{"a"}, []string{},
	map[int64]struct{}{1: {}}, map[string]struct{}{"a": {}},
	nil, 3.5, int(3), int8(1), uint64(1 << 63), []interface{}{1}, struct{}{}, eval.DNE,
	int64(-9223372036854775808), int64(9223372036854775807),
	bigInts(120), bigStrs(120), bigInts(100), []int64{}, []string{}, // beyond every small-list special case, next to empty ones
}

func bigInts(n int) []int64 {
	out := make([]int64, n)
	for i := range out {
		out[i] = int64((i*7919 + 13) % 1009)
	}
	return out
}

func bigStrs(n int) []string {
	out := make([]string, n)
	for i := range out {
		out[i] = elemStr(int64((i*7919 + 13) % 1009))
	}
	return out
}

type hostileFetcher struct {
	seed  int
	avail int // -1: everything cached
}

func (h hostileFetcher) val(s string) interface{} {
	i := (int(hash64(s)%1000003) + h.seed) % len(hostilePool)
	if i < 0 {
		i += len(hostilePool)
	}
	return hostilePool[i]
}
func (h hostileFetcher) Get(_ eval.VariableKey, s string) (eval.Value, error) {
	if h.seed <= -1000 { // explicit pair: x and y take the i-th and j-th hostile value
		k := -h.seed - 1000
		switch s {
		case "x":
			return hostilePool[(k/100)%len(hostilePool)], nil
		case "y":
			return hostilePool[(k%100)%len(hostilePool)], nil
		}
	}
	switch h.seed { // uniform bindings: nothing short-circuits an and (-1) / an or (-2); every integer is 1 (-3)
	case -1:
		return true, nil
	case -2:
		return false, nil
	case -3:
		return int64(1), nil
	}
	if (int(hash64(s)%7)+h.seed)%11 == 0 {
		return nil, m.ErrFetch
	}
	return h.val(s), nil
}
func (h hostileFetcher) Set(eval.VariableKey, string, eval.Value) error { return nil }
func (h hostileFetcher) Cached(_ eval.VariableKey, s string) bool {
	return h.avail < 0 || (int(hash64(s)%5)+h.avail)%2 == 0
}

func c06Config(c C06Case) *eval.Config {
	cc := eval.NewConfig()
	for i, o := range allOpts {
		cc.CompileOptions[o] = c.Mask&(1<<i) != 0
	}
	if c.Infix {
		eval.EnableInfixNotation(cc)
	}
	if c.Undef {
		eval.EnableUndefinedVariable(cc)
	}
	switch c.Events {
	case 1:
		eval.EnableReportEvent(cc)
	case 2:
		eval.EnableDebug(cc)
	case 3:
		eval.EnableReportEvent(cc)
		eval.EnableDebug(cc)
	}
	if c.Mask%3 == 0 {
		// names that are operators / keywords AND registered variables or constants (a config may well
		// say so); the vocabulary has them anyway, so they turn up in every position, the last included
		for i, n := range []string{"mod", "version", "in", "not", "c_id", "and", "if", "date", "+", "overlap"} {
			if i%3 == 2 {
				cc.ConstantMap[n] = int64(i)
			} else {
				cc.VariableKeyMap[n] = eval.VariableKey(600 + i)
			}
		}
	}
	for i, n := range soupNames {
		if !c.Undef || i%2 == 0 {
			if c.Mask%2 == 0 {
				cc.VariableKeyMap[n] = eval.VariableKey(i*37 - 5) // a negative key and keys beyond 255
			} else {
				cc.VariableKeyMap[n] = eval.VariableKey(i*17 - 5) // a negative key, the largest below 256
			}
		}
	}
	cc.ConstantMap["Ki"] = int64(4)
	cc.ConstantMap["Ks"] = "k"
	cc.ConstantMap["Kl"] = []int64{1, 2, 3}
	// constants may hold anything a variable may: pre-built sets, nil, values of unsupported types, long lists
	cc.ConstantMap["Kset"] = map[int64]struct{}{1: {}, 4: {}}
	cc.ConstantMap["Ksset"] = map[string]struct{}{"k": {}}
	cc.ConstantMap["Knil"] = nil
	cc.ConstantMap["Kf"] = 2.5
	cc.ConstantMap["Kraw"] = int(4)
	cc.ConstantMap["Kbig"] = bigInts(120)
	cc.ConstantMap["Kempty"] = []int64{}
	log := &Log{}
	registerCustom(cc, log)
	cc.StatelessOperators = []string{"c_id", "c_sum"}
	if c.NilMaps {
		// the way the repository's own tests build configs: a literal with only what is needed
		lit := &eval.Config{VariableKeyMap: cc.VariableKeyMap, CompileOptions: cc.CompileOptions}
		if c.Mask == 15 {
			lit.CompileOptions = nil // everything at its default: no options map at all
		}
		if c.Mask%2 == 0 {
			lit.OperatorMap = cc.OperatorMap
		}
		if c.Mask%3 == 0 {
			lit.ConstantMap = cc.ConstantMap
		}
		return lit
	}
	return cc
}

// collectEvents runs f with a draining consumer attached to the program.
func collectEvents(e *eval.Expr, f func()) []eval.Event {
	ch := make(chan eval.Event, 16)
	e.EventChan = ch
	var evs []eval.Event
	var wg sync.WaitGroup
	wg.Add(1)
	go func() {
		defer wg.Done()
		for ev := range ch {
			evs = append(evs, ev)
		}
	}()
	f()
	close(ch)
	wg.Wait()
	e.EventChan = nil
	return evs
}

func loopPositionsIncrease(evs []eval.Event) (bool, string) {
	prev := int16(-1)
	for _, ev := range evs {
		if ev.EventType != eval.LoopEvent {
			continue
		}
		d, ok := ev.Data.(eval.LoopEventData)
		if !ok {
			return false, fmt.Sprintf("LOOP event without LoopEventData: %T", ev.Data)
		}
		if d.CurtIdx <= prev {
			return false, fmt.Sprintf("LOOP position %d after %d", d.CurtIdx, prev)
		}
		prev = d.CurtIdx
	}
	return true, ""
}

// exercise runs every evaluation entry point of a compiled program under hostile bindings.
func exerciseC06(c C06Case, e *eval.Expr, r *Rec, cfgs ...*eval.Config) *Violation {
	cc := c06Config(c)
	if len(cfgs) > 0 {
		cc = cfgs[0]
	}
	where := func() string {
		return fmt.Sprintf("src=%q infix=%v config=%s undef=%v events=%d", clip(c.Src, 400), c.Infix, maskName(c.Mask), c.Undef, c.Events)
	}
	if !c.NoDump {
		if _, o := SafeStr(func() string { return eval.Dump(e) }); o.Panic != nil {
			return Violf("C06: Dump panics\n%s\n%v", where(), o)
		}
		for _, skip := range []bool{true, false} {
			if _, o := SafeStr(func() string { return eval.DumpTable(e, skip) }); o.Panic != nil {
				return Violf("C06: DumpTable panics\n%s\n%v", where(), o)
			}
		}
	}
	binds := c.Binds
	if len(binds) == 0 {
		binds = []int{0}
	}
	// ... and through a context the library builds itself from hostile values (whatever fetcher the key
	// layout selects; some names bound, some not)
	for _, seed := range binds {
		vals := map[string]interface{}{}
		hf := hostileFetcher{seed: seed, avail: -1}
		for i, n := range soupNames {
			if (i+seed)%3 != 0 {
				vals[n] = hf.val(n)
			}
		}
		var ctx *eval.Ctx
		if o := Safe(func() (eval.Value, error) { ctx = eval.NewCtxFromVars(cc, vals); return nil, nil }); o.Panic != nil {
			return Violf("C06: NewCtxFromVars panics (binding seed %d, key map %v)\n%s\n%v", seed, cc.VariableKeyMap, where(), o)
		}
		for _, try := range []bool{false, true} {
			var o Outcome
			run := func() {
				o = Safe(func() (eval.Value, error) {
					if try {
						return e.TryEval(ctx)
					}
					return e.Eval(ctx)
				})
			}
			if c.Events > 0 {
				collectEvents(e, run) // (an event-mode program needs its consumer)
			} else {
				run()
			}
			if o.Panic != nil {
				return Violf("C06: evaluation over NewCtxFromVars panics (try=%v, binding seed %d, %T, key map %v)\n%s\n%v", try, seed, ctx.VariableFetcher, cc.VariableKeyMap, where(), o)
			}
		}
	}
	for _, seed := range binds {
		for _, try := range []bool{false, true} {
			f := hostileFetcher{seed: seed, avail: -1}
			if try {
				f.avail = seed
			}
			ctx := &eval.Ctx{VariableFetcher: f}
			var o Outcome
			run := func() {
				o = Safe(func() (eval.Value, error) {
					if try {
						return e.TryEval(ctx)
					}
					return e.Eval(ctx)
				})
			}
			if c.Events > 0 {
				evs := collectEvents(e, run)
				if o.Panic == nil {
					if ok, why := loopPositionsIncrease(evs); !ok {
						return Violf("C06: program positions are not visited in strictly increasing order (try=%v): %s\n%s", try, why, where())
					}
				}
			} else {
				run()
			}
			if o.Panic != nil {
				name := "Eval"
				if try {
					name = "TryEval"
				}
				return Violf("C06: %s panics (binding seed %d)\n%s\n%v", name, seed, where(), o)
			}
		}
	}
	return nil
}

func rejectClass(err error) string {
	s := err.Error()
	switch {
	case strings.Contains(s, "can not parse token"), strings.Contains(s, "unclosed quotes"):
		return "rejected:lexer"
	case strings.Contains(s, "invalid compile format"), strings.Contains(s, "unsupported compile config"), strings.Contains(s, "invalid config value"):
		return "rejected:directive"
	case strings.Contains(s, "parentheses unmatched"):
		return "rejected:structure"
	case strings.Contains(s, "cannot exceed"):
		return "rejected:size"
	}
	return "rejected:parser"
}

func checkC06(c C06Case, r *Rec) *Violation {
	cc := c06Config(c)
	e, o := SafeCompile(cc, c.Src)
	where := func() string {
		return fmt.Sprintf("src=%q infix=%v config=%s undef=%v events=%d origin=%s", clip(c.Src, 400), c.Infix, maskName(c.Mask), c.Undef, c.Events, c.Origin)
	}
	if o.Panic != nil {
		return Violf("C06: Compile panics\n%s\n%v", where(), o)
	}
	if (e == nil) == (o.Err == nil) {
		return Violf("C06: Compile must return exactly one of program / error\n%s\nprogram nil=%v err=%v", where(), e == nil, o.Err)
	}
	if e != nil {
		r.Class("compiled")
		if v := exerciseC06(c, e, r, cc); v != nil {
			return v
		}
	} else {
		r.Class(rejectClass(o.Err))
	}
	if c.Prefixes {
		b := []byte(c.Src)
		for i := 0; i < len(b); i++ {
			if !utf8.RuneStart(b[i]) {
				continue
			}
			p := string(b[:i])
			e2, o2 := SafeCompile(c06Config(c), p)
			if o2.Panic != nil {
				return Violf("C06: Compile panics on a truncated program\nsrc=%q infix=%v\n%v", p, c.Infix, o2)
			}
			if (e2 == nil) == (o2.Err == nil) {
				return Violf("C06: Compile must return exactly one of program / error\nsrc=%q", p)
			}
			if e2 != nil {
				c2 := c
				c2.Src = p
				if v := exerciseC06(c2, e2, r); v != nil {
					return v
				}
				r.Class("prefix-compiled")
			}
		}
		r.ClassN("prefixes-tried", int64(len(b)))
	}
	toks, _ := m.Lex(c.Src)
	if len(toks) >= 2 {
		r.NonTrivial(fmt.Sprintf("%s|%v|%d|%v|%d", c.Src, c.Infix, c.Mask, c.Undef, c.Events), func() interface{} {
			out := "rejected"
			if e != nil {
				out = "compiled"
			} else {
				out = "rejected: " + clip(o.Err.Error(), 80)
			}
			return map[string]interface{}{"src": clip(c.Src, 200), "infix": c.Infix, "config": maskName(c.Mask), "outcome": out, "origin": c.Origin}
		})
	}
	return nil
}

func genSoup(t *rapid.T) string {
	n := rapid.IntRange(0, 40).Draw(t, "ntok")
	var sb strings.Builder
	for i := 0; i < n; i++ {
		if i > 0 {
			sb.WriteString(rapid.SampledFrom(soupSeps).Draw(t, "sep"))
		}
		sb.WriteString(rapid.SampledFrom(soupVocab).Draw(t, "tok"))
	}
	return sb.String()
}

var hostileTokens = []string{"(", ")", "[", "]", ",", "!", `"`, ";", "-", "if", "and", "9223372036854775808", "()", "[]", "", " ", "!=", "in", "overlap", "="}

// genMutated renders a valid program and damages it.
func genMutated(t *rapid.T, infix bool) string {
	g := &G{t: t, GenCfg: GenCfg{Depth: rapid.IntRange(1, 4).Draw(t, "depth"), MaxArity: 3, Custom: true, Aliases: true, Failing: true}}
	tree := wrapRoot(g.Program(rootTy(t)))
	fixEmptyLists(tree)
	var toks []string
	if infix {
		normSymbolic(tree)
		lt, _ := m.Lex(m.RenderInfix(tree, m.InfixOpts{}))
		toks = m.TokTexts(lt)
	} else {
		toks = m.Tokens(tree)
	}
	nm := rapid.IntRange(0, 3).Draw(t, "nmut")
	for k := 0; k < nm && len(toks) > 0; k++ {
		i := rapid.IntRange(0, len(toks)-1).Draw(t, "at")
		switch rapid.IntRange(0, 4).Draw(t, "mut") {
		case 0: // delete
			toks = append(toks[:i:i], toks[i+1:]...)
		case 1: // duplicate
			toks = append(toks[:i+1:i+1], toks[i:]...)
		case 2: // swap
			j := rapid.IntRange(0, len(toks)-1).Draw(t, "with")
			toks[i], toks[j] = toks[j], toks[i]
		case 3: // insert hostile token
			h := rapid.SampledFrom(hostileTokens).Draw(t, "hostile")
			toks = append(toks[:i:i], append([]string{h}, toks[i:]...)...)
		default: // truncate
			toks = toks[:i]
		}
	}
	return strings.Join(toks, " ")
}

// normSymbolic: symbolic names used with a non-binary operand count have no infix
// operator form; give them their named alias so the renderer uses call syntax.
func normSymbolic(n *m.Node) {
	n.Walk(func(x *m.Node) {
		if x.Kind != m.KOp {
			return
		}
		if p := m.InfixPrec(x.Name); p != 100 && !m.IsInfixForm(x) {
			x.Name = m.Aliases[x.Name]
		}
	})
}

// genUntyped builds syntactically valid programs with no regard for operand
// types or counts: any operator over any leaves, so that every operator meets
// lists, sets, nil and wrong counts at run time.
func genUntyped(t *rapid.T, d int) *m.Node {
	if d <= 0 || rapid.IntRange(0, 3).Draw(t, "uleaf") == 0 {
		switch rapid.IntRange(0, 2).Draw(t, "uleafkind") {
		case 0:
			return m.Var(rapid.SampledFrom(soupNames[:9]).Draw(t, "uvar"))
		case 1:
			return m.Const(genVal(t, m.Ty(rapid.IntRange(0, 4).Draw(t, "uty")), "ulit"))
		default:
			return m.NamedConst(rapid.SampledFrom([]string{"Ki", "Ks", "Kl", "true", "false", "Kset", "Kset", "Ksset", "Knil", "Kf", "Kraw", "Kbig", "Kempty"}).Draw(t, "uconst"), nil)
		}
	}
	if rapid.IntRange(0, 7).Draw(t, "uif") == 0 {
		return m.If(genUntyped(t, d-1), genUntyped(t, d-1), genUntyped(t, d-1))
	}
	names := m.BuiltinNames
	if rapid.IntRange(0, 5).Draw(t, "ucustom") == 0 {
		names = customNames
	}
	n := m.Op(rapid.SampledFrom(names).Draw(t, "uop"))
	k := rapid.IntRange(0, 4).Draw(t, "uarity")
	for i := 0; i < k; i++ {
		n.Kids = append(n.Kids, genUntyped(t, d-1))
	}
	return n
}

func genC06(t *rapid.T) C06Case {
	c := C06Case{
		Infix:   rapid.Bool().Draw(t, "infix"),
		Mask:    rapid.IntRange(0, 15).Draw(t, "mask"),
		Undef:   rapid.Bool().Draw(t, "undef"),
		Events:  pickW(t, "events", 6, 2, 2, 1),
		Binds:   []int{rapid.IntRange(0, 1000).Draw(t, "bind0"), rapid.IntRange(0, 1000).Draw(t, "bind1")},
		NilMaps: rapid.IntRange(0, 5).Draw(t, "nilmaps") == 0,
	}
	switch pickW(t, "layer", 5, 1, 2) {
	case 0:
		c.Src, c.Origin = genSoup(t), "soup"
	case 2:
		tree := genUntyped(t, rapid.IntRange(1, 3).Draw(t, "udepth"))
		if tree.IsLeaf() {
			tree = m.Op("c_id", tree)
		}
		fixEmptyLists(tree)
		c.Infix = false
		c.Src, c.Origin = m.Render(tree), "untyped"
	default:
		c.Src, c.Origin = genMutated(t, c.Infix), "mutated"
		c.Prefixes = true
	}
	return c
}

func sweepC06(tier string, shard, shards int, emit func(C06Case)) {
	if shard != 0 {
		return
	}
	rep := strings.Repeat
	big := []string{
		"", " ", "\n", "; c", ";;;; optimize:true", "()", "(", ")", "[", "]", ",", `"`, "!", "! !", "1 +", "+", "x + [", "(1 +) 2",
		// a prefix `!` glued to every kind of character, at the end of the text and before a blank / a delimiter
		`!"`, `a && !"`, `!" `, `!")`, `(!")`, `!"a`, `!"a"`, `!""`, `!(`, `!)`, `![`, `!]`, `!,`, `!;`, `!; c`, `!!`, `!!"`, `! "`, `a !"b" c`, `!'`, "!\n", "!\t\"", `!=`, `!=!`, `!"!"`, `"!`, `x = !"`, `f(!")`, `[!"]`, `!5`, `!-1`, `!+`,
		rep("(", 65536), rep(")", 65536), rep("[", 65536), rep("(", 30000) + rep(")", 30000),
		`"` + rep("x", 65536), `"` + rep("x", 65536) + `"`, "(+ 1 " + rep("9", 65536) + ")", "; " + rep("c", 65536), "(" + rep("a", 65536) + ")",
		rep("(and true ", 200) + "true" + rep(")", 200),
		rep("! ", 2000) + "true", rep("1 + ", 5000) + "1", rep("1 + (", 3000) + "1" + rep(")", 3000),
		"f(" + rep("1, ", 5000) + "1)", "[" + rep("1 ", 20000) + "]", "(" + rep("1 ", 20000) + ")",
	}
	for _, s := range big {
		for _, infix := range []bool{false, true} {
			emit(C06Case{Src: s, Infix: infix, Mask: 15, Undef: true, Events: 0, Binds: []int{1}, NoDump: len(s) > 10000, Origin: "sweep"})
			emit(C06Case{Src: s, Infix: infix, Mask: 0, Undef: false, Events: 1, Binds: []int{2}, NoDump: len(s) > 10000, Origin: "sweep"})
		}
	}
	// the conversion operators with every kind of text and length / layout argument, as literals (folded at
	// compile time with a nil context) and through variables; operators and calls tangled in infix notation
	{
		var conv []string
		for _, op := range []string{"t_version", "version", "to_version"} {
			for _, txt := range []string{`"7"`, `"1.2"`, `"1.2.3"`, `"1.2.3.4"`, `"1.2.3.4.5"`, `""`, `"x"`, `"1..2"`, `"10000"`, `"-1"`, "s0", "i0"} {
				for _, ln := range []string{"", " 0", " 1", " 2", " 3", " 4", " 5", " -1", " i0", ` "3"`, " 9223372036854775807", " 3 4"} {
					conv = append(conv, "("+op+" "+txt+ln+")")
				}
			}
		}
		for _, op := range []string{"date", "to_date", "datetime", "to_datetime", "t_date", "t_time", "td_date", "td_time"} {
			for _, txt := range []string{`"2021-03-04"`, `"2021-03-04 05:06:07"`, `""`, `" 2021-03-04"`, `"0001-01-01"`, `"x"`, "s0", "i0"} {
				for _, lay := range []string{"", ` ""`, ` "2006-01-02"`, ` "2006"`, ` "x"`, ` " 2006-01-02"`, " s0", " 5", ` "2006-01-02" "x"`} {
					conv = append(conv, "("+op+" "+txt+lay+")")
				}
			}
		}
		for i, src := range conv {
			emit(C06Case{Src: src, Mask: []int{15, 0, 1}[i%3], Undef: i%2 == 0, Events: i % 4, Binds: []int{1 + i%3}, Origin: "sweep-conversions"})
		}
		for i, src := range []string{
			"1 2 add(+)", "1 2 add(+ 3 +)", "1 2 3 add(+) +", "add(+)", "add(1 +)", "add(+ 1)", "mod(* 2)", "1 add(+) 2", "a b c_id(!)", "x y add(-) z", "1 2 add(+) 3 4 add(*)",
			"add(,)", "add(1,,2)", "add(1,)", "add(,1)", "if(,,)", "if(1,2,)", "[1 2] [3", "[[1]]", "1 [2] 3", "a b", "a (b)", "(a) (b)", "a !", "! a b", "a ! b", "f(a b)", "f(a)(b)", "f()()", "()", "(())", "a + ()", "f(())",
		} {
			emit(C06Case{Src: src, Infix: true, Mask: []int{15, 0, 5}[i%3], Undef: true, Events: i % 3, Binds: []int{1}, Origin: "sweep-tangled-infix"})
			emit(C06Case{Src: src, Infix: true, Mask: 15, Undef: false, Binds: []int{2}, Origin: "sweep-tangled-infix"})
		}
	}
	// directives in every leading comment line, over struct-literal configs (mask 15: no options map at all)
	for _, src := range []string{
		";; note\n;;;; optimize: false\n(and x y)", "; a\n; b\n;;;; reordering: false\n(or x (and y b0))", ";;;; constant_folding: false\n;; note\n;;;; fast_evaluation: false\n(+ 1 2 x)",
		"\n\n ;;;; optimize:false\n(if b0 1 2)", ";;;; bogus: true\n(and x y)", "; only a comment", ";;;; optimize: false", ";; note\n;;;; optimize: false\nx + 1",
	} {
		for _, mask := range []int{15, 0, 6} {
			for _, infix := range []bool{false, true} {
				emit(C06Case{Src: src, Infix: infix, Mask: mask, NilMaps: true, Binds: []int{1}, Origin: "sweep-directives-over-literal-configs"})
				emit(C06Case{Src: src, Infix: infix, Mask: mask, Undef: true, Binds: []int{2}, Origin: "sweep-directives"})
			}
		}
	}
	// wide and/or programs, alone and nested so that ReduceNesting merges them: the narrow
	// child-count and index fields must be protected by Compile, whatever the option set
	for _, op := range []string{"and", "or", "&&", "||"} {
		for _, shape := range [][2]int{{1, 127}, {1, 128}, {2, 64}, {2, 100}, {3, 90}, {4, 127}, {2, 127}} {
			inner := "(" + op + rep(" x", shape[1]) + ")"
			src := inner
			if shape[0] > 1 {
				src = "(" + op + rep(" "+inner, shape[0]) + ")"
			}
			for _, mask := range []int{0, 2, 15} {
				emit(C06Case{Src: src, Mask: mask, Undef: true, Binds: []int{-1, -2, 7}, NoDump: true, Origin: "sweep-wide"})
				emit(C06Case{Src: src, Mask: mask, Undef: true, Events: 1, Binds: []int{-1, -2}, NoDump: true, Origin: "sweep-wide"})
			}
		}
	}
	// list operators over every pair of hostile values: binding seed s gives x the s-th value
	for i := range hostilePool {
		for j := range hostilePool {
			emit(C06Case{Src: "(or (overlap x y) (in x y) (= x y) (!= y x))", Mask: (i + j) % 16, Undef: true, Binds: []int{-1000 - i*100 - j}, Origin: "sweep-list-pairs"})
		}
	}
	// the same operators over every pair of constants (folded at compile time when folding is on)
	{
		ks := []string{"Ki", "Ks", "Kl", "Kset", "Ksset", "Knil", "Kf", "Kraw", "Kbig", "Kempty", "true"}
		for i, a := range ks {
			for j, b := range ks {
				src := "(if b0 (or (overlap " + a + " " + b + ") (in " + a + " " + b + ") (= " + a + " " + b + ") (!= " + b + " " + a + ") (eq " + a + " " + b + " " + a + ")) false)"
				emit(C06Case{Src: src, Mask: []int{1, 15, 0}[(i+j)%3], Undef: true, Binds: []int{1, 2}, Origin: "sweep-constant-pairs"})
			}
		}
	}
	for _, op := range []string{"+", "*", "=", "c_sum"} {
		for _, n := range []int{126, 127, 128, 129, 255, 256, 257, 300, 383, 384, 511, 512, 513, 640} {
			emit(C06Case{Src: "(" + op + rep(" x", n) + ")", Mask: 15, Undef: true, Binds: []int{-3, 7}, NoDump: true, Origin: "sweep-wide"})
		}
	}
	// big AND wide: about 18 000 nodes in 120-operand calls (a deep operand stack), between the event
	// limit and the plain limit - compiles without events, must be refused (not mis-built) with them
	{
		g := "(+ x" + rep(" 1", 120) + ")"
		G := "(+" + rep(" "+g, 30) + ")"
		src := "(+" + rep(" "+G, 5) + ")"
		for _, ev := range []int{0, 1, 2} {
			for _, mask := range []int{0, 4, 15} {
				emit(C06Case{Src: src, Mask: mask, Undef: true, Events: ev, Binds: []int{7, -3}, NoDump: true, Origin: "sweep-big-wide"})
			}
		}
	}
	// deep but valid nesting: recursion in parser / optimizer / builder ends in a program or an error
	depths := []int{100, 1000, 5000, 16000, 16383, 16384, 20000}
	if tier == "thorough" {
		depths = append(depths, 32766, 32767, 32768, 50000)
	}
	for _, d := range depths {
		for _, ev := range []int{0, 1, 2} { // none, ReportEvent, Debug alone
			emit(C06Case{Src: rep("(not ", d) + "true" + rep(")", d), Mask: 0, Events: ev, Binds: []int{1}, NoDump: d > 300, Origin: fmt.Sprintf("deep-not-%d", d)})
			emit(C06Case{Src: rep("(if b0 1 ", d) + "2" + rep(")", d), Mask: 15, Events: ev, Binds: []int{1, 5}, NoDump: d > 300, Origin: fmt.Sprintf("deep-if-%d", d)})
			emit(C06Case{Src: rep("! (", d) + "true" + rep(")", d), Infix: true, Mask: 5, Events: ev, Binds: []int{1}, NoDump: d > 300, Origin: fmt.Sprintf("deep-infix-%d", d)})
		}
	}
}

var propC06 = Prop[C06Case]{
	ID:    "C06",
	Rule:  "source texts from (1) token soup over every delimiter, operator, alias, keyword, identifier form, integer form, string form, comment/directive form and hostile rune, joined with and without separators, (2) valid generated programs (prefix and infix) damaged by token deletion/duplication/swap/insertion/truncation plus every byte prefix of them, (3) a fixed sweep of empty/huge/deeply nested inputs, (4) native coverage-guided fuzzing (thorough); x notation x 16 subsets x undefined-variable mode x event mode. Oracle: Compile returns exactly one of program/error and never panics; every compiled program runs Eval, TryEval, Dump, DumpTable under hostile bindings (nil, lists, sets, floats, unsupported types, failing fetches) without panic and within the watchdog; LOOP positions strictly increase. Non-trivial = the input lexes to >= 2 tokens (independent lexer); distinct by text + options",
	Gen:   genC06,
	Check: checkC06,
	Sweep: sweepC06,
	Limit: 0,
}

func TestC06(t *testing.T)       { Run(t, propC06) }
func TestC06Replay(t *testing.T) { Replay(t, propC06) }

// repoTestStrings collects the string literals of the repository's own test files that
// look like expressions: the starting corpus of the byte-level fuzzer.
func repoTestStrings() []string {
	dir := envOr("VERIF_REPO_DIR", "/repo")
	files, _ := filepath.Glob(filepath.Join(dir, "*_test.go"))
	seen := map[string]bool{}
	var out []string
	for _, f := range files {
		b, err := os.ReadFile(f)
		if err != nil {
			continue
		}
		src := string(b)
		for _, q := range []byte{'`', '"'} {
			parts := strings.Split(src, string(q))
			for i := 1; i < len(parts); i += 2 {
				lit := parts[i]
				if len(lit) < 3 || len(lit) > 400 || seen[lit] || (q == '"' && strings.Contains(lit, "\n")) {
					continue
				}
				if strings.ContainsAny(lit, "()[]") || strings.Contains(lit, " + ") || strings.Contains(lit, "&&") {
					seen[lit] = true
					out = append(out, lit)
				}
			}
		}
	}
	if len(out) > 600 {
		out = out[:600]
	}
	return out
}

// FuzzC06 is the byte-level layer: first two bytes select notation and options.
func FuzzC06(f *testing.F) {
	seeds := []string{
		`(and (>= age 30) (= gender "Male"))`, `(if b0 (> i0 1) (in s0 ("a" "b")))`, `(+ 1 (* 2 3) (/ 6 x))`,
		`a + b * 2 > 3 && !x`, `if(a > 1, [1 2 3], [])`, `f(a, b + 1, !c)`, ";;;; optimize:false\n(or a b)",
		`(overlap (1 2 3) li0)`, `(to_version "1.2.3" 3)`, `(date "2021-01-01")`, `(= (1 2) (1 2))`, `1 +`, `[`, `! ! a`, "",
	}
	seeds = append(seeds, repoTestStrings()...)
	for _, s := range seeds {
		for _, o := range []byte{0, 1, 2, 3} {
			f.Add(append([]byte{o, 0x0f}, s...))
		}
	}
	f.Fuzz(func(t *testing.T, data []byte) {
		if len(data) < 2 || len(data) > 4096 {
			return
		}
		c := C06Case{
			Src:    string(data[2:]),
			Infix:  data[0]&1 != 0,
			Undef:  data[0]&2 != 0,
			Events: int(data[0]>>2) % 3,
			Mask:   int(data[1] & 15),
			Binds:  []int{int(data[1] >> 4)},
			Origin: "native-fuzz",
		}
		r := newRec("C06")
		wdStart("C06", c, 120e9)
		v := checkC06(c, r)
		wdStop()
		if v != nil {
			t.Fatalf("VIOLATION-DETAIL property=C06\n%s", v.Msg)
		}
	})
}
