package props

import (
	"encoding/json"
	"fmt"
	"hash/fnv"
	"os"
	"path/filepath"
	"sort"
	"strconv"
	"strings"
	"sync"
	"sync/atomic"
	"testing"
	"time"

	"pgregory.net/rapid"
)

// ---------------------------------------------------------------- environment

func envOr(k, d string) string {
	if v := os.Getenv(k); v != "" {
		return v
	}
	return d
}

func verifRoot() string { return envOr("VERIF_ROOT", "/verif") }
func Tier() string      { return envOr("VERIF_TIER", "quick") }
func Thorough() bool    { return Tier() == "thorough" }
func shard() int        { n, _ := strconv.Atoi(envOr("VERIF_SHARD", "0")); return n }
func replayDir() string { return envOr("VERIF_REPLAY_DIR", filepath.Join(verifRoot(), "replays")) }
func seedBase() int64   { n, _ := strconv.ParseInt(envOr("VERIF_SEED", "1"), 10, 64); return n }

// ---------------------------------------------------------------- violations and known findings

type Violation struct {
	Msg   string
	Known string // id of the known-finding class this violation belongs to ("" = none)
}

func Violf(format string, a ...interface{}) *Violation {
	return &Violation{Msg: fmt.Sprintf(format, a...)}
}

func KnownViolf(id, format string, a ...interface{}) *Violation {
	return &Violation{Msg: fmt.Sprintf(format, a...), Known: id}
}

type finding struct {
	ID       string `json:"id"`
	Property string `json:"property"`
	Status   string `json:"status"` // open | fixed
	What     string `json:"what"`
	Line     string `json:"line,omitempty"`
}

var (
	findingsOnce sync.Once
	openFindings map[string]finding
)

func openFinding(id string) (finding, bool) {
	findingsOnce.Do(func() {
		openFindings = map[string]finding{}
		b, err := os.ReadFile(filepath.Join(verifRoot(), "known_findings.json"))
		if err != nil {
			return
		}
		var f struct {
			Findings []finding `json:"findings"`
		}
		if json.Unmarshal(b, &f) != nil {
			return
		}
		for _, x := range f.Findings {
			if x.Status == "open" {
				openFindings[x.ID] = x
			}
		}
	})
	f, ok := openFindings[id]
	return f, ok
}

// ---------------------------------------------------------------- evidence recorder

type Rec struct {
	ID          string
	Evaluations int64
	hashes      map[uint64]struct{}
	Classes     map[string]int64
	Samples     []interface{}
	Known       map[string]int64
	frozen      bool
	printed     map[string]bool
}

func newRec(id string) *Rec {
	return &Rec{ID: id, hashes: map[uint64]struct{}{}, Classes: map[string]int64{}, Known: map[string]int64{}, printed: map[string]bool{}}
}

func hash64(s string) uint64 {
	h := fnv.New64a()
	h.Write([]byte(s))
	return h.Sum64()
}

// Case counts one generated case.
func (r *Rec) Case() {
	if !r.frozen {
		r.Evaluations++
	}
}

// Class adds one to a histogram bucket.
func (r *Rec) Class(name string) {
	if !r.frozen {
		r.Classes[name]++
	}
}

func (r *Rec) ClassN(name string, n int64) {
	if !r.frozen {
		r.Classes[name] += n
	}
}

// NonTrivial records a case that is non-trivial by the property's rule; key is
// its canonical text (distinctness is by hash of the key).
func (r *Rec) NonTrivial(key string, sample func() interface{}) {
	if r.frozen {
		return
	}
	h := hash64(key)
	if _, dup := r.hashes[h]; dup {
		return
	}
	r.hashes[h] = struct{}{}
	if len(r.Samples) < 3 || (len(r.Samples) < 8 && h%251 == 0) {
		r.Samples = append(r.Samples, sample())
	}
}

// KnownHit reports a violation that belongs to the open known finding id: it is
// counted, announced once per run, and the search goes on. It returns false when
// the finding is not listed as open (the caller then reports a normal violation).
func (r *Rec) KnownHit(pid, id string) bool {
	f, ok := openFinding(id)
	if !ok || f.Property != pid {
		return false
	}
	if !r.frozen {
		r.Known[id]++
	}
	if !r.printed[id] {
		r.printed[id] = true
		fmt.Printf("KNOWN-FINDING: property=%s %s [%s]\n", pid, f.What, f.ID)
	}
	return true
}

type shardStats struct {
	ID          string           `json:"id"`
	Shard       int              `json:"shard"`
	Evaluations int64            `json:"evaluations"`
	Hashes      []string         `json:"hashes"`
	Classes     map[string]int64 `json:"classes"`
	Samples     []interface{}    `json:"samples"`
	Known       map[string]int64 `json:"known"`
	EngineCalls int64            `json:"engine_calls"`
	Rule        string           `json:"rule"`
	Exhaustive  bool             `json:"exhaustive,omitempty"`
}

func (r *Rec) write(rule string) {
	path := os.Getenv("VERIF_STATS")
	if path == "" {
		return
	}
	s := shardStats{ID: r.ID, Shard: shard(), Evaluations: r.Evaluations, Classes: r.Classes, Samples: r.Samples, Known: r.Known, EngineCalls: atomic.LoadInt64(&engineCalls), Rule: rule}
	for h := range r.hashes {
		s.Hashes = append(s.Hashes, strconv.FormatUint(h, 16))
	}
	sort.Strings(s.Hashes)
	b, _ := json.Marshal(s)
	_ = os.WriteFile(path, b, 0o644)
}

// ---------------------------------------------------------------- watchdog

var wd struct {
	mu      sync.Mutex
	id      string
	c       interface{}
	started time.Time
	limit   time.Duration
	once    sync.Once
}

func wdStart(id string, c interface{}, limit time.Duration) {
	wd.once.Do(func() {
		go func() {
			for {
				time.Sleep(time.Second)
				wd.mu.Lock()
				id, c, st, lim := wd.id, wd.c, wd.started, wd.limit
				wd.mu.Unlock()
				if id != "" && time.Since(st) > lim {
					msg := fmt.Sprintf("no result within %v: an engine call did not terminate", lim)
					writeReplay(id, c, msg)
					fmt.Printf("HANG property=%s %s\n", id, msg)
					os.Exit(3)
				}
			}
		}()
	})
	wd.mu.Lock()
	wd.id, wd.c, wd.started, wd.limit = id, c, time.Now(), limit
	wd.mu.Unlock()
}

func wdStop() {
	wd.mu.Lock()
	wd.id, wd.c = "", nil
	wd.mu.Unlock()
}

// ---------------------------------------------------------------- replay files

type replayFile struct {
	Property string          `json:"property"`
	Message  string          `json:"message"`
	Case     json.RawMessage `json:"case"`
}

func latestPath(id string) string {
	return filepath.Join(replayDir(), fmt.Sprintf("%s.latest.%d.json", id, shard()))
}

// firstFailPath: the first violation a shard observes is kept here as well. A violation that
// depends on process-wide state left behind by earlier cases (a cache inside the library, say)
// does not recur when rapid immediately re-runs the case ("flaky test, can not reproduce"), and
// the re-run would otherwise leave no trace of it.
func firstFailPath(id string) string {
	return filepath.Join(replayDir(), fmt.Sprintf("%s.firstfail.%d.json", id, shard()))
}

func writeReplay(id string, c interface{}, msg string) {
	writeReplayTo(latestPath(id), id, c, msg)
}

func writeReplayTo(path, id string, c interface{}, msg string) {
	_ = os.MkdirAll(replayDir(), 0o755)
	cb, err := json.MarshalIndent(c, "", " ")
	if err != nil {
		cb = []byte(fmt.Sprintf("%q", fmt.Sprintf("unserialisable case: %v", err)))
	}
	b, _ := json.MarshalIndent(replayFile{Property: id, Message: msg, Case: cb}, "", " ")
	_ = os.WriteFile(path, b, 0o644)
}

func loadCase[C any](path string) (C, error) {
	var c C
	b, err := os.ReadFile(path)
	if err != nil {
		return c, err
	}
	var rf replayFile
	if err := json.Unmarshal(b, &rf); err != nil {
		return c, err
	}
	if len(rf.Case) == 0 {
		return c, fmt.Errorf("%s: no case", path)
	}
	err = json.Unmarshal(rf.Case, &c)
	return c, err
}

// ---------------------------------------------------------------- property runner

type Prop[C any] struct {
	ID       string
	Rule     string
	Gen      func(t *rapid.T) C
	Check    func(c C, r *Rec) *Violation
	Limit    time.Duration // watchdog per case (default 120 s)
	PreWrite bool          // write every case before running it (race-detector attribution)
	// Sweep, if set, enumerates deterministic cases (boundary grids) before the random search.
	Sweep func(tier string, shard, shards int, emit func(C))
	// Before / After bracket the whole run of a shard: Before is called ahead of the first case and
	// its result handed to After once the last case has passed. After reports a violation (and a
	// case to put into the replay file) if the library answers a fixed set of questions differently
	// now - i.e. if something the run did has left a trace in process-wide state.
	Before func() interface{}
	After  func(before interface{}) (*Violation, C)
}

func (p Prop[C]) limit() time.Duration {
	if p.Limit != 0 {
		return p.Limit
	}
	return 120 * time.Second
}

// runCase runs one case under the watchdog and turns known findings into notes.
func (p Prop[C]) runCase(c C, r *Rec) *Violation {
	if p.PreWrite {
		writeReplay(p.ID, c, "case in progress (written before running)")
	}
	wdStart(p.ID, c, p.limit())
	v := p.Check(c, r)
	wdStop()
	if p.PreWrite && v == nil {
		_ = os.Remove(latestPath(p.ID))
	}
	if v != nil && v.Known != "" {
		if f, ok := openFinding(v.Known); ok && f.Property == p.ID {
			if !r.frozen {
				r.Known[v.Known]++
			}
			if !r.printed[v.Known] {
				r.printed[v.Known] = true
				fmt.Printf("KNOWN-FINDING: property=%s %s [%s]\n", p.ID, f.What, f.ID)
			}
			return nil
		}
	}
	return v
}

func (p Prop[C]) fail(c C, r *Rec, v *Violation) {
	if !r.frozen {
		writeReplayTo(firstFailPath(p.ID), p.ID, c, v.Msg)
	}
	r.frozen = true
	writeReplay(p.ID, c, v.Msg)
}

// Run is the body of Test<ID>: corpus replay, deterministic sweep, random search.
func Run[C any](t *testing.T, p Prop[C]) {
	r := newRec(p.ID)
	defer func() { r.write(p.Rule) }()
	_ = os.Remove(latestPath(p.ID))
	_ = os.Remove(firstFailPath(p.ID))
	var bracket interface{}
	if p.Before != nil {
		bracket = p.Before()
	}
	defer func() {
		if p.After == nil || t.Failed() {
			return
		}
		if v, c := p.After(bracket); v != nil {
			p.fail(c, r, v)
			t.Errorf("VIOLATION-DETAIL property=%s (whole-run bracket)\n%s", p.ID, v.Msg)
		}
	}()

	if shard() == 0 {
		dir := filepath.Join(envOr("VERIF_CORPUS", filepath.Join(verifRoot(), "corpus")), p.ID)
		files, _ := filepath.Glob(filepath.Join(dir, "*.json"))
		sort.Strings(files)
		for _, f := range files {
			c, err := loadCase[C](f)
			if err != nil {
				t.Fatalf("corpus file %s unreadable: %v", f, err)
			}
			r.Case()
			r.Class("corpus")
			if v := p.runCase(c, r); v != nil {
				p.fail(c, r, v)
				t.Fatalf("VIOLATION-DETAIL property=%s corpus=%s\n%s", p.ID, filepath.Base(f), v.Msg)
			}
		}
	}

	if p.Sweep != nil {
		shards, _ := strconv.Atoi(envOr("VERIF_SHARDS", "1"))
		var bad *Violation
		p.Sweep(Tier(), shard(), shards, func(c C) {
			if bad != nil {
				return
			}
			r.Case()
			r.Class("sweep")
			if v := p.runCase(c, r); v != nil {
				p.fail(c, r, v)
				bad = v
			}
		})
		if bad != nil {
			t.Fatalf("VIOLATION-DETAIL property=%s (sweep)\n%s", p.ID, bad.Msg)
		}
	}

	if p.Gen == nil {
		return
	}
	rapid.Check(t, func(rt *rapid.T) {
		c := p.Gen(rt)
		r.Case()
		if v := p.runCase(c, r); v != nil {
			p.fail(c, r, v)
			rt.Fatalf("VIOLATION-DETAIL property=%s\n%s", p.ID, v.Msg)
		}
	})
}

// Replay is the body of Test<ID>Replay: run check on a saved case, no rapid.
func Replay[C any](t *testing.T, p Prop[C]) {
	path := os.Getenv("VERIF_REPLAY_FILE")
	if path == "" {
		t.Skip("VERIF_REPLAY_FILE not set")
	}
	c, err := loadCase[C](path)
	if err != nil {
		t.Fatalf("cannot load %s: %v", path, err)
	}
	r := newRec(p.ID)
	if v := p.runCase(c, r); v != nil {
		fmt.Printf("REPLAY-VIOLATION property=%s\n%s\n", p.ID, v.Msg)
		t.Fatalf("replay reproduces the violation")
	}
	fmt.Printf("REPLAY-OK property=%s (case passes)\n", p.ID)
}

// short helper for samples
func clip(s string, n int) string {
	if len(s) > n {
		return s[:n] + "…"
	}
	return s
}

var _ = strings.Join

// canaryBracket builds the Before/After pair of a whole-run bracket from a generator and a
// function that asks the library a fixed set of questions about a case and renders the answers:
// n generated cases (rapid's deterministic examples 1..n) are asked before the first case of the
// shard and again after the last one.
func canaryBracket[C any](id string, n int, gen func(*rapid.T) C, ask func(C) string) (func() interface{}, func(interface{}) (*Violation, C)) {
	examples := func() []C {
		g := rapid.Custom(gen)
		out := make([]C, n)
		for i := range out {
			out[i] = g.Example(i + 1)
		}
		return out
	}
	type state struct {
		cases   []C
		answers []string
	}
	before := func() interface{} {
		st := &state{cases: examples()}
		for _, c := range st.cases {
			st.answers = append(st.answers, ask(c))
		}
		return st
	}
	after := func(b interface{}) (*Violation, C) {
		st := b.(*state)
		for i, c := range st.cases {
			if now := ask(c); now != st.answers[i] {
				return Violf("%s: a canary case asked before the first case of this run and again after the last one is answered differently (something the run did in between has left a trace in process-wide state of the library; replaying this case alone will not show it)\nbefore:\n%s\nafter:\n%s", id, clip(st.answers[i], 3000), clip(now, 3000)), c
			}
		}
		var zero C
		return nil, zero
	}
	return before, after
}
