//go:build verif

package props

// Large programs for C12: enabling events on a program whose event layout fits the node limit
// must not change anything either - in particular not turn a value into a compile error. The
// programs come from C09's size family: about 16400 nodes, many of them two-leaf operators
// (whose operands get no event node under FastEvaluation), bare and under ifs.
func init() {
	propC12.Sweep = func(tier string, shard, shards int, emit func(C12Case)) {
		i := 0
		for _, dec := range [][3]int{{0, 0, 500}, {0, 500, 0}, {100, 300, 100}} {
			for _, events := range []int{1, 2} {
				for _, try := range []bool{false, true} {
					if tier != "thorough" && (events == 2) != try {
						continue
					}
					i++
					if i%shards != shard {
						continue
					}
					c9 := C09Case{Kind: "nodes", Op: "+", Inner: "*", N: 16384 + i, Ifs: dec[0], Bins: dec[1], IfBins: dec[2], Reach: true}
					tree := c9.tree()
					u := c9.universe()
					c := C12Case{U: *u, Tree: tree, Events: events, Consumer: 1, Try: try, Masks: []int{15, MaskFast}, Evals: 1}
					if try {
						for _, v := range u.Vars {
							c.Avail = append(c.Avail, v.Name)
						}
					}
					emit(c)
				}
			}
		}
	}
}
