package props

import (
	"fmt"
	"github.com/onheap/eval"
	"strings"
	"testing"

	"pgregory.net/rapid"

	m "verifharness/model"
)

// C03 – skipped and/or operands and untaken if-branches are never evaluated.

type C03Case struct {
	U     Universe    `json:"u"`
	Tree  *m.Node     `json:"tree"`
	Costs []CostEntry `json:"costs,omitempty"`
	Src   string      `json:"src"`
}

// atMostOncePerNode: an evaluation visits every node of the program at most once, so a variable is
// fetched at most as often as it occurs in the dumped tree and a registered operator is called at
// most as often as calls of it occur there - whatever the values are. (A retry, a fallback lookup or
// a second application shows here without any model of values.)
func atMostOncePerNode(dump *m.Node, trace []m.Ev) string {
	occ := map[string]int{}
	dump.Walk(func(x *m.Node) {
		switch x.Kind {
		case m.KVar:
			occ["get:"+x.Name]++
		case m.KOp:
			occ["call:"+x.Name]++
		}
	})
	seen := map[string]int{}
	for _, ev := range trace {
		k := "call:" + ev.Op
		if ev.Get != "" {
			k = "get:" + ev.Get
		}
		seen[k]++
		if seen[k] > occ[k] {
			return fmt.Sprintf("%s happens %d times in one evaluation, the program contains it %d times", k, seen[k], occ[k])
		}
	}
	return ""
}

func genC03(t *rapid.T) C03Case {
	g := &G{t: t, GenCfg: GenCfg{
		Depth:    rapid.IntRange(1, depthMax(6, 8)).Draw(t, "depth"),
		MaxArity: rapid.IntRange(2, arityMax(6, 12)).Draw(t, "maxarity"),
		Failing:  rapid.Bool().Draw(t, "failing"),
		BadVars:  rapid.Bool().Draw(t, "badvars"),
		Custom:   true, Stateful: true, Consts: true, Aliases: true, BoolW: 6,
	}}
	var tree *m.Node
	var wish map[string]bool
	if rapid.IntRange(0, 5).Draw(t, "chain") == 0 {
		tree, wish = decisionChain(t)
	} else {
		tree = wrapRoot(g.Program(rootTy(t)))
	}
	fixEmptyLists(tree)
	u := UniverseFor(t, tree, false)
	applyWishes(u, wish)
	u.Stateless = drawStateless(t)
	return C03Case{U: *u, Tree: tree, Costs: genCosts(t, tree, finiteCosts), Src: m.Render(tree)}
}

func hasEffect(n *m.Node) bool {
	found := false
	n.Walk(func(x *m.Node) {
		if x.Kind == m.KVar || (x.Kind == m.KOp && !m.IsBuiltin(x.Name)) {
			found = true
		}
	})
	return found
}

func checkC03(c C03Case, r *Rec) *Violation {
	u := &c.U
	src := m.Render(c.Tree)
	// one program in four is written in infix notation (the notation changes nothing about what is evaluated)
	infix := hash64(src)%4 == 1 && infixSafe(c.Tree, u)
	if infix {
		t2 := c.Tree.Clone()
		normSymbolic(t2) // (symbolic names only in binary position; the oracle reads the program's own dump)
		src = m.RenderInfix(t2, m.InfixOpts{})
		r.Class("infix-source")
	}
	skippedEffects := false
	optional := 0
	for mask := 0; mask < 16; mask++ {
		run, v := runCfg("C03", u, src, Build{Mask: mask, How: HowMapAll, Costs: c.Costs, Infix: infix})
		if v != nil {
			return v
		}
		if run.Out.Panic != nil {
			return Violf("C03: Eval panics\n%s\n%v", run.describe(src, u), run.Out)
		}
		if why := atMostOncePerNode(run.DTree, run.Trace); why != "" {
			return Violf("C03: %s\n%s\nengine=%v", why, run.describe(src, u), m.TraceStrings(run.Trace))
		}
		// the same with un-normalised integers from the fetcher (no model of what operators make of
		// them: only the at-most-once rule, and Eval and TryEval performing the same effects)
		if hash64(src)%5 == 0 {
			var traces [2][]m.Ev
			for k, try := range []bool{false, true} {
				run.Log.Reset()
				f := NewFetcher(u, run.Cfg, run.Log)
				f.Raw = true
				o := Safe(func() (eval.Value, error) {
					if try {
						return run.Expr.TryEval(f.Ctx())
					}
					return run.Expr.Eval(f.Ctx())
				})
				if o.Panic != nil {
					return Violf("C03: evaluation panics with un-normalised integer bindings\n%s\n%v", run.describe(src, u), o)
				}
				traces[k] = append([]m.Ev(nil), run.Log.Ev...)
				if why := atMostOncePerNode(run.DTree, traces[k]); why != "" {
					return Violf("C03: with un-normalised integer bindings (Go int / int32 from the fetcher): %s\n%s\nengine=%v", why, run.describe(src, u), m.TraceStrings(traces[k]))
				}
			}
			r.Class("raw-integer-bindings")
			run.Log.Reset()
		}
		if !MatchTrace(run.Trace, run.RefTrace) {
			return Violf("C03: the fetches / operator calls performed differ from left-to-right short-circuit evaluation of the dumped program\n%s\nengine   =%v\nreference=%v",
				run.describe(src, u), m.TraceStrings(run.Trace), m.TraceStrings(run.RefTrace))
		}
		if run.RefErr == m.ErrOptionalFetch {
			optional++
			continue
		}
		if !Agrees(run.Out, run.RefVal, run.RefErr) {
			return Violf("C03: result differs from short-circuit evaluation of the dumped program\n%s\nengine=%v\nreference=%s", run.describe(src, u), run.Out, refString(run.RefVal, run.RefErr))
		}
		// a second evaluation of the same compiled program performs the same effects again
		if v := run.Again("C03", src, u, 2); v != nil {
			return v
		}
		// TryEval evaluates too: with every variable available it performs the same effects
		if v := run.AgainTry("C03", src, u, 3); v != nil {
			return v
		}
		// was something with an effect really skipped?
		eag := &m.Env{Vars: u.Bound(), Fail: u.Fail(), Custom: customModel()}
		eag.EvalAll(run.DTree, nil)
		if len(eag.Trace) > len(run.RefTrace) {
			skippedEffects = true
		}
	}
	if optional > 0 {
		r.Class("optional-fast-fetch-failed")
	}
	if skippedEffects {
		r.Class("skipped-part-has-effects")
		r.NonTrivial(src+fmt.Sprint(describeU(u)), func() interface{} {
			return map[string]interface{}{"src": clip(src, 300), "binding": describeU(u)}
		})
	}
	return nil
}

var propC03 = Prop[C03Case]{
	ID:    "C03",
	Rule:  "typed random expression with effectful operands everywhere (variables incl. failing/unbound, logging custom operators incl. failing and stateful ones) x 16 optimization subsets; the engine's ordered log of Get calls and custom-operator calls (name, arguments, result/error) must equal the trace of R (R_fast when FastEvaluation is on; its second-leaf fetch after a deciding first leaf is optional) run on the tree read back from that configuration's Dump; Eval, Eval again, and TryEval with every variable available. Model-free: no variable is fetched and no registered operator called more often than it occurs in the dumped program (also with Go int / int32 values from the fetcher, one case in five). One case in six is a decision chain: 2..9 nested and/or levels continuing through first / middle / last operands and directly nested ifs, decided (or not) by one innermost boolean. Non-trivial = in some configuration evaluating everything (all operands, both branches) would perform more fetches/calls than were performed, i.e. a part with effects really was skipped; distinct by source + binding",
	Gen:   genC03,
	Check: checkC03,
}

func TestC03(t *testing.T)       { Run(t, propC03) }
func TestC03Replay(t *testing.T) { Replay(t, propC03) }

// infixSafe: the program can be written in infix notation without meeting what C15 sets aside (a bare
// atom as the whole program, variables named like operators).
func infixSafe(tree *m.Node, u *Universe) bool {
	if tree.IsLeaf() {
		return false
	}
	for _, v := range u.Vars {
		if m.IsBuiltin(v.Name) || strings.HasPrefix(v.Name, "c_") {
			return false
		}
	}
	return true
}
