package model

import (
	"errors"
	"math"
	"strings"
)

// ErrBuiltin is the class "some built-in operator failed"; messages are never compared.
var ErrBuiltin = errors.New("model: built-in operator error")

type BFn func(args []interface{}) (interface{}, error)

// Aliases lists every built-in name with the canonical (named) form it must behave like.
var Aliases = map[string]string{
	"add": "add", "+": "add", "sub": "sub", "-": "sub", "mul": "mul", "*": "mul",
	"div": "div", "/": "div", "mod": "mod", "%": "mod",
	"and": "and", "&": "and", "&&": "and", "or": "or", "|": "or", "||": "or",
	"xor": "xor", "not": "not", "!": "not",
	"eq": "eq", "=": "eq", "==": "eq", "ne": "ne", "!=": "ne",
	"gt": "gt", ">": "gt", "lt": "lt", "<": "lt", "ge": "ge", ">=": "ge", "le": "le", "<=": "le",
	"between": "between", "in": "in", "overlap": "overlap",
	"date": "date", "to_date": "date", "datetime": "datetime", "to_datetime": "datetime",
	"t_time": "t_time", "t_date": "t_time", "td_time": "td_time", "td_date": "td_date",
	"version": "version", "t_version": "version", "to_version": "version",
}

// BuiltinNames is the sorted list of all built-in operator names.
var BuiltinNames = func() []string {
	out := make([]string, 0, len(Aliases))
	for k := range Aliases {
		out = append(out, k)
	}
	sortStrings(out)
	return out
}()

func sortStrings(a []string) {
	for i := 1; i < len(a); i++ {
		for j := i; j > 0 && a[j] < a[j-1]; j-- {
			a[j], a[j-1] = a[j-1], a[j]
		}
	}
}

func IsBuiltin(op string) bool { _, ok := Aliases[op]; return ok }

// Builtin returns the model of a built-in operator (by any alias).
func Builtin(op string) (BFn, bool) {
	c, ok := Aliases[op]
	if !ok {
		return nil, false
	}
	switch c {
	case "add":
		return arith(func(a, b int64) (int64, bool) { return a + b, true }), true
	case "sub":
		return arith(func(a, b int64) (int64, bool) { return a - b, true }), true
	case "mul":
		return arith(func(a, b int64) (int64, bool) { return a * b, true }), true
	case "div":
		return arith(func(a, b int64) (int64, bool) {
			if b == 0 {
				return 0, false
			}
			if b == -1 { // MinInt64 / -1 wraps to MinInt64
				return 0 - a, true
			}
			return a / b, true
		}), true
	case "mod":
		return arith(func(a, b int64) (int64, bool) {
			if b == 0 {
				return 0, false
			}
			if b == -1 {
				return 0, true
			}
			return a % b, true
		}), true
	case "and":
		return logic(func(a, b bool) bool { return a && b }), true
	case "or":
		return logic(func(a, b bool) bool { return a || b }), true
	case "xor":
		return logic(func(a, b bool) bool { return a != b }), true
	case "not":
		return func(args []interface{}) (interface{}, error) {
			if len(args) != 1 {
				return nil, ErrBuiltin
			}
			b, ok := args[0].(bool)
			if !ok {
				return nil, ErrBuiltin
			}
			return !b, nil
		}, true
	case "eq":
		return opEq, true
	case "ne":
		return func(args []interface{}) (interface{}, error) {
			if len(args) != 2 {
				return nil, ErrBuiltin
			}
			eq, err := eq2(args[0], args[1])
			if err != nil {
				return nil, err
			}
			return !eq, nil
		}, true
	case "gt":
		return cmp(func(a, b int64) bool { return a > b }), true
	case "lt":
		return cmp(func(a, b int64) bool { return a < b }), true
	case "ge":
		return cmp(func(a, b int64) bool { return a >= b }), true
	case "le":
		return cmp(func(a, b int64) bool { return a <= b }), true
	case "between":
		return func(args []interface{}) (interface{}, error) {
			if len(args) != 3 {
				return nil, ErrBuiltin
			}
			var v [3]int64
			for i := range v {
				x, ok := args[i].(int64)
				if !ok {
					return nil, ErrBuiltin
				}
				v[i] = x
			}
			return v[1] <= v[0] && v[0] <= v[2], nil
		}, true
	case "in":
		return opIn, true
	case "overlap":
		return opOverlap, true
	case "version":
		return opVersion, true
	case "date":
		return opTime(LayoutDate, 1, 2), true
	case "datetime":
		return opTime(LayoutDatetime, 1, 2), true
	case "t_time":
		return opTime("", 2, 2), true
	case "td_time":
		return opTime(LayoutDatetime, 1, 1), true
	case "td_date":
		return opTime(LayoutDate, 1, 1), true
	}
	return nil, false
}

func isListOrSet(v interface{}) bool {
	switch v.(type) {
	case []int64, []string, map[int64]struct{}, map[string]struct{}:
		return true
	}
	return false
}

func sameKind(a, b interface{}) bool {
	switch a.(type) {
	case []int64:
		_, ok := b.([]int64)
		return ok
	case []string:
		_, ok := b.([]string)
		return ok
	case map[int64]struct{}:
		_, ok := b.(map[int64]struct{})
		return ok
	case map[string]struct{}:
		_, ok := b.(map[string]struct{})
		return ok
	}
	return false
}

// eq2: scalars of equal type compare by value, values of different types are
// unequal, two lists (or two sets) of the same type cannot be compared.
func eq2(a, b interface{}) (bool, error) {
	if isListOrSet(a) || isListOrSet(b) {
		if sameKind(a, b) {
			return false, ErrBuiltin
		}
		return false, nil
	}
	switch x := a.(type) {
	case int64:
		y, ok := b.(int64)
		return ok && x == y, nil
	case string:
		y, ok := b.(string)
		return ok && x == y, nil
	case bool:
		y, ok := b.(bool)
		return ok && x == y, nil
	case nil:
		return b == nil, nil
	}
	return a == b, nil
}

func opEq(args []interface{}) (interface{}, error) {
	if len(args) < 2 {
		return nil, ErrBuiltin
	}
	if len(args) == 2 {
		r, err := eq2(args[0], args[1])
		if err != nil {
			return nil, err
		}
		return r, nil
	}
	// n-ary: every operand is compared with the first, the first included
	for _, a := range args {
		r, err := eq2(args[0], a)
		if err != nil {
			return nil, err
		}
		if !r {
			return false, nil
		}
	}
	return true, nil
}

func arith(f func(a, b int64) (int64, bool)) BFn {
	return func(args []interface{}) (interface{}, error) {
		if len(args) < 2 {
			return nil, ErrBuiltin
		}
		var acc int64
		for i, a := range args {
			v, ok := a.(int64)
			if !ok {
				return nil, ErrBuiltin
			}
			if i == 0 {
				acc = v
				continue
			}
			acc, ok = f(acc, v)
			if !ok {
				return nil, ErrBuiltin
			}
		}
		return acc, nil
	}
}

func logic(f func(a, b bool) bool) BFn {
	return func(args []interface{}) (interface{}, error) {
		if len(args) < 2 {
			return nil, ErrBuiltin
		}
		var acc bool
		for i, a := range args {
			v, ok := a.(bool)
			if !ok {
				return nil, ErrBuiltin
			}
			if i == 0 {
				acc = v
			} else {
				acc = f(acc, v)
			}
		}
		return acc, nil
	}
}

func cmp(f func(a, b int64) bool) BFn {
	return func(args []interface{}) (interface{}, error) {
		if len(args) != 2 {
			return nil, ErrBuiltin
		}
		a, ok := args[0].(int64)
		b, ok2 := args[1].(int64)
		if !ok || !ok2 {
			return nil, ErrBuiltin
		}
		return f(a, b), nil
	}
}

func opIn(args []interface{}) (interface{}, error) {
	if len(args) != 2 {
		return nil, ErrBuiltin
	}
	switch v := args[0].(type) {
	case int64:
		switch l := args[1].(type) {
		case []int64:
			m := make(map[int64]bool, len(l))
			for _, x := range l {
				m[x] = true
			}
			return m[v], nil
		case []string:
			if len(l) == 0 { // the empty list literal
				return false, nil
			}
		case map[int64]struct{}:
			_, ok := l[v]
			return ok, nil
		}
	case string:
		switch l := args[1].(type) {
		case []string:
			m := make(map[string]bool, len(l))
			for _, x := range l {
				m[x] = true
			}
			return m[v], nil
		case map[string]struct{}:
			_, ok := l[v]
			return ok, nil
		}
	}
	return nil, ErrBuiltin
}

func opOverlap(args []interface{}) (interface{}, error) {
	if len(args) != 2 {
		return nil, ErrBuiltin
	}
	switch a := args[0].(type) {
	case []int64:
		switch b := args[1].(type) {
		case []int64:
			m := make(map[int64]bool, len(a))
			for _, x := range a {
				m[x] = true
			}
			for _, x := range b {
				if m[x] {
					return true, nil
				}
			}
			return false, nil
		case []string:
			if len(b) == 0 {
				return false, nil
			}
		}
	case []string:
		switch b := args[1].(type) {
		case []string:
			m := make(map[string]bool, len(a))
			for _, x := range a {
				m[x] = true
			}
			for _, x := range b {
				if m[x] {
					return true, nil
				}
			}
			return false, nil
		case []int64:
			if len(a) == 0 {
				return false, nil
			}
		}
	}
	return nil, ErrBuiltin
}

// ---- versions: explicit base-10000 positional arithmetic

// ParseComponent reads one version component the way the documentation
// describes it (a decimal number); ok=false for anything else.
func parseComponent(s string) (int64, bool) {
	if s == "" {
		return 0, false
	}
	neg := false
	i := 0
	if s[0] == '+' || s[0] == '-' {
		neg = s[0] == '-'
		i = 1
		if len(s) == 1 {
			return 0, false
		}
	}
	var v uint64
	for ; i < len(s); i++ {
		c := s[i]
		if c < '0' || c > '9' {
			return 0, false
		}
		if v > (math.MaxUint64-9)/10 {
			return 0, false
		}
		v = v*10 + uint64(c-'0')
	}
	if neg {
		if v > 1<<63 {
			return 0, false
		}
		return int64(-v), true
	}
	if v > math.MaxInt64 {
		return 0, false
	}
	return int64(v), true
}

// VersionEncode is the positional model: the first n components (missing ones
// read as 0) as digits of a base-10000 number.
func VersionEncode(s string, n int) (int64, bool) {
	parts := strings.Split(s, ".")
	var res int64
	for i := 0; i < n; i++ {
		var c int64
		if i < len(parts) {
			v, ok := parseComponent(parts[i])
			if !ok || v >= 10000 {
				return 0, false
			}
			c = v
		}
		res = res*10000 + c
	}
	return res, true
}

func opVersion(args []interface{}) (interface{}, error) {
	n := 3
	switch len(args) {
	case 1:
	case 2:
		l, ok := args[1].(int64)
		if !ok || l < 1 || l > 4 {
			return nil, ErrBuiltin
		}
		n = int(l)
	default:
		return nil, ErrBuiltin
	}
	s, ok := args[0].(string)
	if !ok {
		return nil, ErrBuiltin
	}
	v, ok := VersionEncode(s, n)
	if !ok {
		return nil, ErrBuiltin
	}
	return v, nil
}

// ---- dates: hand-written civil arithmetic, no time.Parse

const (
	LayoutDate     = "2006-01-02"
	LayoutDatetime = "2006-01-02 15:04:05"
	LayoutDMY      = "02/01/2006"
	LayoutRFC3339  = "2006-01-02T15:04:05Z07:00"
	LayoutText     = "Jan 2 2006 15:04"
	// layouts whose texts also parse under a default layout, with another meaning
	LayoutYDM = "2006-02-01"          // year-day-month
	LayoutSMH = "2006-01-02 05:04:15" // seconds:minutes:hours
)

// KnownLayouts are the layouts the model can parse by hand; generators use only these.
var KnownLayouts = []string{LayoutDate, LayoutDatetime, LayoutDMY, LayoutRFC3339, LayoutText, LayoutYDM, LayoutSMH}

var monthNames = []string{"Jan", "Feb", "Mar", "Apr", "May", "Jun", "Jul", "Aug", "Sep", "Oct", "Nov", "Dec"}

func IsLeap(y int64) bool { return y%4 == 0 && (y%100 != 0 || y%400 == 0) }

func DaysIn(m, y int64) int64 {
	switch m {
	case 2:
		if IsLeap(y) {
			return 29
		}
		return 28
	case 4, 6, 9, 11:
		return 30
	}
	return 31
}

// DaysFromCivil: days since 1970-01-01 of the proleptic Gregorian date y-m-d.
func DaysFromCivil(y, m, d int64) int64 {
	if m <= 2 {
		y--
	}
	var era int64
	if y >= 0 {
		era = y / 400
	} else {
		era = (y - 399) / 400
	}
	yoe := y - era*400
	mp := (m + 9) % 12
	doy := (153*mp+2)/5 + d - 1
	doe := yoe*365 + yoe/4 - yoe/100 + doy
	return era*146097 + doe - 719468
}

// Civil is a broken-down UTC-offset timestamp.
type Civil struct {
	Y, M, D, H, Mi, S int64
	Off               int64 // seconds east of UTC
}

func (c Civil) Unix() int64 {
	return DaysFromCivil(c.Y, c.M, c.D)*86400 + c.H*3600 + c.Mi*60 + c.S - c.Off
}

func (c Civil) valid() bool {
	return c.M >= 1 && c.M <= 12 && c.D >= 1 && c.D <= DaysIn(c.M, c.Y) &&
		c.H >= 0 && c.H < 24 && c.Mi >= 0 && c.Mi < 60 && c.S >= 0 && c.S < 60
}

func pad(v int64, w int) string {
	s := ""
	for v > 0 || s == "" {
		s = string(rune('0'+v%10)) + s
		v /= 10
	}
	for len(s) < w {
		s = "0" + s
	}
	return s
}

// FormatCivil writes c in one of the KnownLayouts.
func FormatCivil(c Civil, layout string) string {
	switch layout {
	case LayoutDate:
		return pad(c.Y, 4) + "-" + pad(c.M, 2) + "-" + pad(c.D, 2)
	case LayoutDatetime:
		return pad(c.Y, 4) + "-" + pad(c.M, 2) + "-" + pad(c.D, 2) + " " + pad(c.H, 2) + ":" + pad(c.Mi, 2) + ":" + pad(c.S, 2)
	case LayoutDMY:
		return pad(c.D, 2) + "/" + pad(c.M, 2) + "/" + pad(c.Y, 4)
	case LayoutRFC3339:
		z := "Z"
		if c.Off != 0 {
			o := c.Off
			sign := "+"
			if o < 0 {
				sign, o = "-", -o
			}
			z = sign + pad(o/3600, 2) + ":" + pad(o%3600/60, 2)
		}
		return pad(c.Y, 4) + "-" + pad(c.M, 2) + "-" + pad(c.D, 2) + "T" + pad(c.H, 2) + ":" + pad(c.Mi, 2) + ":" + pad(c.S, 2) + z
	case LayoutYDM:
		return pad(c.Y, 4) + "-" + pad(c.D, 2) + "-" + pad(c.M, 2)
	case LayoutSMH:
		return pad(c.Y, 4) + "-" + pad(c.M, 2) + "-" + pad(c.D, 2) + " " + pad(c.S, 2) + ":" + pad(c.Mi, 2) + ":" + pad(c.H, 2)
	case LayoutText:
		return monthNames[c.M-1] + " " + pad(c.D, 1) + " " + pad(c.Y, 4) + " " + pad(c.H, 2) + ":" + pad(c.Mi, 2)
	}
	panic("model: unknown layout " + layout)
}

type scanner struct {
	s  string
	i  int
	ok bool
}

func (p *scanner) digits(min, max int) int64 {
	var v int64
	n := 0
	for p.i < len(p.s) && n < max && p.s[p.i] >= '0' && p.s[p.i] <= '9' {
		v = v*10 + int64(p.s[p.i]-'0')
		p.i++
		n++
	}
	if n < min {
		p.ok = false
	}
	return v
}

// frac: time.Parse accepts a fractional second right after the seconds field even when the
// layout has none (".5", ",123"); Unix() drops it.
func (p *scanner) frac() {
	if p.i+1 < len(p.s) && (p.s[p.i] == '.' || p.s[p.i] == ',') && p.s[p.i+1] >= '0' && p.s[p.i+1] <= '9' {
		p.i++
		for p.i < len(p.s) && p.s[p.i] >= '0' && p.s[p.i] <= '9' {
			p.i++
		}
	}
}

func (p *scanner) lit(l string) {
	if strings.HasPrefix(p.s[p.i:], l) {
		p.i += len(l)
	} else {
		p.ok = false
	}
}

// ParseCivil is a strict parser for the KnownLayouts: exact field widths, exact
// separators, nothing before or after - except the one liberty time.Parse documents: a
// fractional second directly after the seconds field. ok=false for anything else. The
// generators only produce texts on which strictness cannot differ from the
// documented time.Parse behaviour (see DESIGN.md §2.4).
func ParseCivil(s, layout string) (Civil, bool) {
	p := &scanner{s: s, ok: true}
	var c Civil
	c.M, c.D = 1, 1
	switch layout {
	case LayoutDate:
		c.Y = p.digits(4, 4)
		p.lit("-")
		c.M = p.digits(2, 2)
		p.lit("-")
		c.D = p.digits(2, 2)
	case LayoutDatetime:
		c.Y = p.digits(4, 4)
		p.lit("-")
		c.M = p.digits(2, 2)
		p.lit("-")
		c.D = p.digits(2, 2)
		p.lit(" ")
		c.H = p.digits(2, 2)
		p.lit(":")
		c.Mi = p.digits(2, 2)
		p.lit(":")
		c.S = p.digits(2, 2)
		p.frac()
	case LayoutYDM:
		c.Y = p.digits(4, 4)
		p.lit("-")
		c.D = p.digits(2, 2)
		p.lit("-")
		c.M = p.digits(2, 2)
	case LayoutSMH:
		c.Y = p.digits(4, 4)
		p.lit("-")
		c.M = p.digits(2, 2)
		p.lit("-")
		c.D = p.digits(2, 2)
		p.lit(" ")
		c.S = p.digits(2, 2)
		p.frac()
		p.lit(":")
		c.Mi = p.digits(2, 2)
		p.lit(":")
		c.H = p.digits(2, 2)
	case LayoutDMY:
		c.D = p.digits(2, 2)
		p.lit("/")
		c.M = p.digits(2, 2)
		p.lit("/")
		c.Y = p.digits(4, 4)
	case LayoutRFC3339:
		c.Y = p.digits(4, 4)
		p.lit("-")
		c.M = p.digits(2, 2)
		p.lit("-")
		c.D = p.digits(2, 2)
		p.lit("T")
		c.H = p.digits(2, 2)
		p.lit(":")
		c.Mi = p.digits(2, 2)
		p.lit(":")
		c.S = p.digits(2, 2)
		p.frac()
		if p.ok && p.i < len(p.s) && p.s[p.i] == 'Z' {
			p.i++
		} else if p.ok && p.i < len(p.s) && (p.s[p.i] == '+' || p.s[p.i] == '-') {
			neg := p.s[p.i] == '-'
			p.i++
			h := p.digits(2, 2)
			p.lit(":")
			m := p.digits(2, 2)
			if h > 23 || m > 59 {
				p.ok = false
			}
			c.Off = h*3600 + m*60
			if neg {
				c.Off = -c.Off
			}
		} else {
			p.ok = false
		}
	case LayoutText:
		c.M = 0
		for i, mn := range monthNames {
			if strings.HasPrefix(p.s[p.i:], mn) {
				c.M = int64(i + 1)
				p.i += 3
				break
			}
		}
		if c.M == 0 {
			return c, false
		}
		p.lit(" ")
		c.D = p.digits(1, 2)
		p.lit(" ")
		c.Y = p.digits(4, 4)
		p.lit(" ")
		c.H = p.digits(2, 2)
		p.lit(":")
		c.Mi = p.digits(2, 2)
	default:
		return c, false
	}
	if !p.ok || p.i != len(p.s) || !c.valid() {
		return c, false
	}
	return c, true
}

func isKnownLayout(l string) bool {
	for _, k := range KnownLayouts {
		if k == l {
			return true
		}
	}
	return false
}

func opTime(layout string, minArgs, maxArgs int) BFn {
	return func(args []interface{}) (interface{}, error) {
		if len(args) < minArgs || len(args) > maxArgs {
			return nil, ErrBuiltin
		}
		l := layout
		if len(args) == 2 {
			s, ok := args[1].(string)
			if !ok {
				return nil, ErrBuiltin
			}
			l = s
		}
		s, ok := args[0].(string)
		if !ok {
			return nil, ErrBuiltin
		}
		if !isKnownLayout(l) {
			// Layouts outside the known set are never generated together with a
			// value they could match (the pools are disjoint), so this is a mismatch.
			return nil, ErrBuiltin
		}
		c, ok := ParseCivil(s, l)
		if !ok {
			return nil, ErrBuiltin
		}
		return c.Unix(), nil
	}
}
