package model

import (
	"errors"
	"fmt"
)

// Sentinel errors shared with the instrumented fetcher / custom operators of the
// harness, so that "the very error the fetcher or operator returned" can be
// checked with errors.Is.
var (
	ErrFetch   = errors.New("sentinel: variable fetch failed")
	ErrUnbound = errors.New("sentinel: variable not bound")
	ErrCustom  = errors.New("sentinel: custom operator failed")
	// ErrOptionalFetch marks a run in which the one permitted extra fetch of a
	// fast operator (second leaf after a deciding first leaf) failed: the
	// engine may legitimately return that error or go on.
	ErrOptionalFetch = errors.New("model: optional fetch of a fast operator failed")
)

type dneT struct{}

func (dneT) String() string { return "DNE" }

// DNE is the model's "unavailable" value.
var DNE = dneT{}

func IsDNE(v interface{}) bool { _, ok := v.(dneT); return ok }

// Ev is one observable effect: a variable fetch or an operator application.
type Ev struct {
	Get     string        `json:"get,omitempty"`
	Op      string        `json:"op,omitempty"`
	Args    []interface{} `json:"-"`
	Res     interface{}   `json:"-"`
	Err     error         `json:"-"`
	Opt     bool          `json:"opt,omitempty"`     // may be absent (fast operator's second leaf / final and-or fold)
	Builtin bool          `json:"builtin,omitempty"` // application of a built-in operator (only in Apps)
	Fast    bool          `json:"fast,omitempty"`    // applied on the fast (two-leaf) path
}

func (e Ev) String() string {
	o := ""
	if e.Opt {
		o = "?"
	}
	if e.Get != "" {
		return "get" + o + ":" + e.Get
	}
	args := ""
	for i, a := range e.Args {
		if i > 0 {
			args += " "
		}
		args += RenderVal(a)
	}
	if e.Err != nil {
		return fmt.Sprintf("call%s:%s(%s)=!%s", o, e.Op, args, ErrClass(e.Err))
	}
	return fmt.Sprintf("call%s:%s(%s)=%s", o, e.Op, args, RenderVal(e.Res))
}

func TraceStrings(t []Ev) []string {
	out := make([]string, len(t))
	for i, e := range t {
		out[i] = e.String()
	}
	return out
}

// ErrClass maps an error to its class name: the three sentinels, or "other".
func ErrClass(err error) string {
	switch {
	case err == nil:
		return ""
	case errors.Is(err, ErrFetch):
		return "fetch"
	case errors.Is(err, ErrUnbound):
		return "unbound"
	case errors.Is(err, ErrCustom):
		return "custom"
	}
	return "other"
}

// CustomFn models a registered (non-built-in) operator. calls is the number of
// earlier applications of that operator within the same run of state.
type CustomFn func(args []interface{}, calls int64) (interface{}, error)

// Env is one evaluation context of the reference semantics.
type Env struct {
	Vars   map[string]interface{} // bound variables
	Fail   map[string]error       // variables whose fetch fails with that error
	Custom map[string]CustomFn
	Calls  map[string]int64 // per-operator call counters (state of stateful operators), threaded by the caller
	Fast   bool             // two-leaf operators take both leaves before applying (FastEvaluation layout)

	Trace []Ev // fetches and custom-operator applications, in order
	Apps  []Ev // every operator application, built-ins included, in order
	// Skipped is set when an and/or really short-circuited past a later operand.
	ShortCircuits int
}

func (e *Env) get(name string, opt bool) (interface{}, error) {
	e.Trace = append(e.Trace, Ev{Get: name, Opt: opt})
	if err, ok := e.Fail[name]; ok {
		return nil, err
	}
	v, ok := e.Vars[name]
	if !ok {
		return nil, ErrUnbound
	}
	return v, nil
}

func (e *Env) apply(op string, args []interface{}, optional bool, fast ...bool) (interface{}, error) {
	isFast := len(fast) > 0 && fast[0]
	if f, ok := Builtin(op); ok {
		r, err := f(args)
		e.Apps = append(e.Apps, Ev{Op: op, Args: append([]interface{}(nil), args...), Res: r, Err: err, Builtin: true, Opt: optional, Fast: isFast})
		return r, err
	}
	f, ok := e.Custom[op]
	if !ok {
		panic("model: unknown operator " + op)
	}
	if e.Calls == nil {
		e.Calls = map[string]int64{}
	}
	cp := append([]interface{}(nil), args...)
	r, err := f(args, e.Calls[op])
	e.Calls[op]++
	ev := Ev{Op: op, Args: cp, Res: r, Err: err}
	e.Trace = append(e.Trace, ev)
	ev.Fast = isFast
	e.Apps = append(e.Apps, ev)
	return r, err
}

func isFastShape(n *Node) bool {
	return n.Kind == KOp && len(n.Kids) == 2 && n.Kids[0].IsLeaf() && n.Kids[1].IsLeaf()
}

// Eval is R: left-to-right evaluation with short-circuiting and/or and lazy if.
func (e *Env) Eval(n *Node) (interface{}, error) {
	switch n.Kind {
	case KConst:
		return n.Val, nil
	case KVar:
		return e.get(n.Name, false)
	case KIf:
		c, err := e.Eval(n.Kids[0])
		if err != nil {
			return nil, err
		}
		b, ok := c.(bool)
		if !ok {
			return nil, ErrBuiltin
		}
		if b {
			return e.Eval(n.Kids[1])
		}
		return e.Eval(n.Kids[2])
	}
	and, or := IsAnd(n.Name), IsOr(n.Name)
	args := make([]interface{}, 0, len(n.Kids))
	if e.Fast && isFastShape(n) {
		decided := false
		for i, k := range n.Kids {
			var v interface{}
			if k.Kind == KVar {
				var err error
				v, err = e.get(k.Name, decided)
				if err != nil {
					if decided {
						return nil, ErrOptionalFetch
					}
					return nil, err
				}
			} else {
				v = k.Val
			}
			args = append(args, v)
			if i == 0 {
				if b, ok := v.(bool); ok && ((and && !b) || (or && b)) {
					decided = true
				}
			}
		}
		return e.apply(n.Name, args, false, true)
	}
	for i, k := range n.Kids {
		v, err := e.Eval(k)
		if err != nil {
			return nil, err
		}
		if b, ok := v.(bool); ok && ((and && !b) || (or && b)) {
			if i < len(n.Kids)-1 {
				e.ShortCircuits++
			}
			return b, nil
		}
		args = append(args, v)
	}
	// The final fold of an and/or none of whose operands absorbed: its value is
	// the value of the last operand, so an implementation may skip applying it.
	optional := (and || or) && len(args) >= 2 && allBool(args)
	return e.apply(n.Name, args, optional)
}

func allBool(a []interface{}) bool {
	for _, v := range a {
		if _, ok := v.(bool); !ok {
			return false
		}
	}
	return true
}

// EvalEager is R_eager: every and/or operand is evaluated (no short circuit),
// only the taken if branch. ok=false when anything reachable fails.
func (e *Env) EvalEager(n *Node) (interface{}, bool) {
	switch n.Kind {
	case KConst:
		return n.Val, true
	case KVar:
		v, err := e.get(n.Name, false)
		return v, err == nil
	case KIf:
		c, ok := e.EvalEager(n.Kids[0])
		if !ok {
			return nil, false
		}
		b, ok := c.(bool)
		if !ok {
			return nil, false
		}
		if b {
			return e.EvalEager(n.Kids[1])
		}
		return e.EvalEager(n.Kids[2])
	}
	args := make([]interface{}, 0, len(n.Kids))
	for _, k := range n.Kids {
		v, ok := e.EvalEager(k)
		if !ok {
			return nil, false
		}
		args = append(args, v)
	}
	r, err := e.apply(n.Name, args, false)
	return r, err == nil
}

// EvalAll is R_all: everything is evaluated, both if branches included.
// failed reports the sub-trees that fail on their own (used to repair cases).
func (e *Env) EvalAll(n *Node, failed func(*Node)) (interface{}, bool) {
	switch n.Kind {
	case KConst:
		return n.Val, true
	case KVar:
		v, err := e.get(n.Name, false)
		if err != nil && failed != nil {
			failed(n)
		}
		return v, err == nil
	case KIf:
		c, ok := e.EvalAll(n.Kids[0], failed)
		a, ok1 := e.EvalAll(n.Kids[1], failed)
		b, ok2 := e.EvalAll(n.Kids[2], failed)
		if !ok || !ok1 || !ok2 {
			return nil, false
		}
		cb, isb := c.(bool)
		if !isb {
			if failed != nil {
				failed(n)
			}
			return nil, false
		}
		if cb {
			return a, true
		}
		return b, true
	}
	args := make([]interface{}, 0, len(n.Kids))
	allOK := true
	for _, k := range n.Kids {
		v, ok := e.EvalAll(k, failed)
		if !ok {
			allOK = false
		}
		args = append(args, v)
	}
	if !allOK {
		return nil, false
	}
	r, err := e.apply(n.Name, args, false)
	if err != nil && failed != nil {
		failed(n)
	}
	return r, err == nil
}

// Kleene is K: three-valued evaluation under a set of available variables.
// The tree must not fail (callers repair it first); a failure panics.
func (e *Env) Kleene(n *Node, avail map[string]bool) interface{} {
	switch n.Kind {
	case KConst:
		return n.Val
	case KVar:
		if !avail[n.Name] {
			return DNE
		}
		v, err := e.get(n.Name, false)
		if err != nil {
			panic("model: Kleene on a failing variable " + n.Name)
		}
		return v
	case KIf:
		c := e.Kleene(n.Kids[0], avail)
		if IsDNE(c) {
			return DNE
		}
		if c.(bool) {
			return e.Kleene(n.Kids[1], avail)
		}
		return e.Kleene(n.Kids[2], avail)
	}
	and, or := IsAnd(n.Name), IsOr(n.Name)
	args := make([]interface{}, 0, len(n.Kids))
	dne := false
	for _, k := range n.Kids {
		v := e.Kleene(k, avail)
		if IsDNE(v) {
			dne = true
			continue
		}
		if b, ok := v.(bool); ok && ((and && !b) || (or && b)) {
			return b
		}
		args = append(args, v)
	}
	if dne {
		return DNE
	}
	r, err := e.apply(n.Name, args, false)
	if err != nil {
		panic("model: Kleene on a failing operator " + n.Name)
	}
	return r
}

// KleeneDecidedAfterDNE reports whether, somewhere in the tree, an and/or was
// decided by an operand located after an unavailable one (the hard case of C05).
func (e *Env) KleeneDecidedAfterDNE(n *Node, avail map[string]bool) bool {
	found := false
	var rec func(n *Node) interface{}
	rec = func(n *Node) interface{} {
		switch n.Kind {
		case KConst:
			return n.Val
		case KVar:
			if !avail[n.Name] {
				return DNE
			}
			return e.Vars[n.Name]
		case KIf:
			c := rec(n.Kids[0])
			if IsDNE(c) {
				return DNE
			}
			if b, ok := c.(bool); ok && b {
				return rec(n.Kids[1])
			}
			return rec(n.Kids[2])
		}
		and, or := IsAnd(n.Name), IsOr(n.Name)
		args := make([]interface{}, 0, len(n.Kids))
		dne := false
		for _, k := range n.Kids {
			v := rec(k)
			if IsDNE(v) {
				dne = true
				continue
			}
			if b, ok := v.(bool); ok && ((and && !b) || (or && b)) {
				if dne {
					found = true
				}
				return b
			}
			args = append(args, v)
		}
		if dne {
			return DNE
		}
		f, ok := Builtin(n.Name)
		if !ok {
			cf := e.Custom[n.Name]
			r, _ := cf(args, 0)
			return r
		}
		r, _ := f(args)
		return r
	}
	rec(n)
	return found
}
