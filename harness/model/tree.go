// Package model is the reference side of the verification harness: expression
// trees, renderers, an independent lexer, a reader for Dump output, the
// reference semantics R (left-to-right short-circuit), the three-valued
// semantics K and an independent table of the built-in operators.
//
// It deliberately does not import github.com/onheap/eval.
package model

import (
	"encoding/json"
	"fmt"
	"reflect"
	"sort"
	"strconv"
	"strings"
	"time"
)

type Kind int

const (
	KConst Kind = iota
	KVar
	KOp
	KIf
)

// Ty is the static type the generator assigns to an expression.
type Ty int

const (
	TInt Ty = iota
	TBool
	TStr
	TIntList
	TStrList
)

func (t Ty) String() string {
	return [...]string{"int", "bool", "str", "intlist", "strlist"}[t]
}

// Node is an expression tree. Values are held with the dynamic types the
// engine uses: int64, bool, string, []int64, []string.
type Node struct {
	Kind Kind
	Name string      // variable / operator name, or the name of a named constant
	Val  interface{} // constant value
	Kids []*Node
}

func Const(v interface{}) *Node                { return &Node{Kind: KConst, Val: v} }
func NamedConst(n string, v interface{}) *Node { return &Node{Kind: KConst, Name: n, Val: v} }
func Var(n string) *Node                       { return &Node{Kind: KVar, Name: n} }
func Op(n string, kids ...*Node) *Node         { return &Node{Kind: KOp, Name: n, Kids: kids} }
func If(c, a, b *Node) *Node                   { return &Node{Kind: KIf, Name: "if", Kids: []*Node{c, a, b}} }

func (n *Node) String() string { return Render(n) }

func (n *Node) IsLeaf() bool { return n.Kind == KConst || n.Kind == KVar }

func (n *Node) Clone() *Node {
	c := &Node{Kind: n.Kind, Name: n.Name, Val: n.Val}
	for _, k := range n.Kids {
		c.Kids = append(c.Kids, k.Clone())
	}
	return c
}

func (n *Node) Size() int {
	s := 1
	for _, k := range n.Kids {
		s += k.Size()
	}
	return s
}

func (n *Node) Depth() int {
	d := 0
	for _, k := range n.Kids {
		if kd := k.Depth(); kd > d {
			d = kd
		}
	}
	return d + 1
}

func (n *Node) Walk(f func(*Node)) {
	f(n)
	for _, k := range n.Kids {
		k.Walk(f)
	}
}

// VarNames returns the sorted set of variable names in the tree.
func (n *Node) VarNames() []string {
	m := map[string]bool{}
	n.Walk(func(x *Node) {
		if x.Kind == KVar {
			m[x.Name] = true
		}
	})
	out := make([]string, 0, len(m))
	for k := range m {
		out = append(out, k)
	}
	sort.Strings(out)
	return out
}

func (n *Node) Mentions(name string) bool {
	found := false
	n.Walk(func(x *Node) {
		if (x.Kind == KVar || x.Kind == KOp) && x.Name == name {
			found = true
		}
	})
	return found
}

func IsAnd(s string) bool { return s == "and" || s == "&" || s == "&&" }
func IsOr(s string) bool  { return s == "or" || s == "|" || s == "||" }

// EqualTree is structural equality; named constants compare by value only.
func EqualTree(a, b *Node) bool {
	if a.Kind != b.Kind || len(a.Kids) != len(b.Kids) {
		return false
	}
	switch a.Kind {
	case KConst:
		return EqualVal(a.Val, b.Val)
	case KVar, KOp:
		if a.Name != b.Name {
			return false
		}
	}
	for i := range a.Kids {
		if !EqualTree(a.Kids[i], b.Kids[i]) {
			return false
		}
	}
	return true
}

// EqualVal is deep equality on engine values; an empty list equals an empty
// list of the same element type only (nil and empty slices are equal).
func EqualVal(a, b interface{}) bool {
	switch x := a.(type) {
	case nil:
		return b == nil
	case int64:
		y, ok := b.(int64)
		return ok && x == y
	case bool:
		y, ok := b.(bool)
		return ok && x == y
	case string:
		y, ok := b.(string)
		return ok && x == y
	case []int64:
		y, ok := b.([]int64)
		if !ok || len(x) != len(y) {
			return false
		}
		for i := range x {
			if x[i] != y[i] {
				return false
			}
		}
		return true
	case []string:
		y, ok := b.([]string)
		if !ok || len(x) != len(y) {
			return false
		}
		for i := range x {
			if x[i] != y[i] {
				return false
			}
		}
		return true
	case dneT:
		_, ok := b.(dneT)
		return ok
	}
	// values of other (raw, un-normalised) Go types: equal only with the same type and value
	return reflect.DeepEqual(a, b)
}

// ---- rendering (prefix)

func RenderVal(v interface{}) string {
	switch x := v.(type) {
	case int64:
		return strconv.FormatInt(x, 10)
	case bool:
		if x {
			return "true"
		}
		return "false"
	case string:
		return `"` + x + `"`
	case []int64:
		p := make([]string, len(x))
		for i, e := range x {
			p[i] = strconv.FormatInt(e, 10)
		}
		return "(" + strings.Join(p, " ") + ")"
	case []string:
		p := make([]string, len(x))
		for i, e := range x {
			p[i] = `"` + e + `"`
		}
		return "(" + strings.Join(p, " ") + ")"
	}
	return fmt.Sprintf("<%T %v>", v, v)
}

// Render writes the canonical one-line prefix form.
func Render(n *Node) string {
	var sb strings.Builder
	render(&sb, n)
	return sb.String()
}

func render(sb *strings.Builder, n *Node) {
	switch n.Kind {
	case KConst:
		if n.Name != "" {
			sb.WriteString(n.Name)
		} else {
			sb.WriteString(RenderVal(n.Val))
		}
	case KVar:
		sb.WriteString(n.Name)
	default:
		sb.WriteByte('(')
		sb.WriteString(n.Name)
		for _, k := range n.Kids {
			sb.WriteByte(' ')
			render(sb, k)
		}
		sb.WriteByte(')')
	}
}

// Tokens returns the token sequence of the canonical prefix form (used by the
// re-layout generator; string literals are single tokens with their quotes).
func Tokens(n *Node) []string {
	var out []string
	var rec func(n *Node)
	val := func(v interface{}) {
		switch x := v.(type) {
		case []int64:
			out = append(out, "(")
			for _, e := range x {
				out = append(out, strconv.FormatInt(e, 10))
			}
			out = append(out, ")")
		case []string:
			out = append(out, "(")
			for _, e := range x {
				out = append(out, `"`+e+`"`)
			}
			out = append(out, ")")
		default:
			out = append(out, RenderVal(v))
		}
	}
	rec = func(n *Node) {
		switch n.Kind {
		case KConst:
			if n.Name != "" {
				out = append(out, n.Name)
			} else {
				val(n.Val)
			}
		case KVar:
			out = append(out, n.Name)
		default:
			out = append(out, "(", n.Name)
			for _, k := range n.Kids {
				rec(k)
			}
			out = append(out, ")")
		}
	}
	rec(n)
	return out
}

// ---- JSON (case files)

// JV is the serialised form of a value of any type the harness binds.
type JV struct {
	T string   `json:"t"`
	S string   `json:"s,omitempty"`
	L []string `json:"l,omitempty"`
}

func EncVal(v interface{}) JV {
	i := func(t string, x int64) JV { return JV{T: t, S: strconv.FormatInt(x, 10)} }
	u := func(t string, x uint64) JV { return JV{T: t, S: strconv.FormatUint(x, 10)} }
	switch x := v.(type) {
	case nil:
		return JV{T: "nil"}
	case int64:
		return i("i64", x)
	case bool:
		return JV{T: "bool", S: strconv.FormatBool(x)}
	case string:
		return JV{T: "str", S: x}
	case []int64:
		l := make([]string, len(x))
		for k, e := range x {
			l[k] = strconv.FormatInt(e, 10)
		}
		return JV{T: "li64", L: l}
	case []string:
		return JV{T: "lstr", L: append([]string{}, x...)}
	case int:
		return i("int", int64(x))
	case int8:
		return i("i8", int64(x))
	case int16:
		return i("i16", int64(x))
	case int32:
		return i("i32", int64(x))
	case uint8:
		return u("u8", uint64(x))
	case uint16:
		return u("u16", uint64(x))
	case uint32:
		return u("u32", uint64(x))
	case uint64:
		return u("u64", x)
	case []int:
		l := make([]string, len(x))
		for k, e := range x {
			l[k] = strconv.Itoa(e)
		}
		return JV{T: "lint", L: l}
	case []int32:
		l := make([]string, len(x))
		for k, e := range x {
			l[k] = strconv.FormatInt(int64(e), 10)
		}
		return JV{T: "li32", L: l}
	case time.Time:
		return JV{T: "time", S: strconv.FormatInt(x.Unix(), 10) + "." + strconv.Itoa(x.Nanosecond())}
	case time.Duration:
		return i("dur", int64(x))
	case float64:
		return JV{T: "f64", S: strconv.FormatFloat(x, 'g', -1, 64)}
	case map[int64]struct{}:
		ks := make([]int64, 0, len(x))
		for k := range x {
			ks = append(ks, k)
		}
		sort.Slice(ks, func(a, b int) bool { return ks[a] < ks[b] })
		l := make([]string, len(ks))
		for k, e := range ks {
			l[k] = strconv.FormatInt(e, 10)
		}
		return JV{T: "seti", L: l}
	case map[string]struct{}:
		ks := make([]string, 0, len(x))
		for k := range x {
			ks = append(ks, k)
		}
		sort.Strings(ks)
		return JV{T: "sets", L: ks}
	case dneT:
		return JV{T: "dne"}
	}
	return JV{T: "unknown", S: fmt.Sprintf("%T:%v", v, v)}
}

func DecVal(j JV) interface{} {
	pi := func() int64 { v, _ := strconv.ParseInt(j.S, 10, 64); return v }
	pu := func() uint64 { v, _ := strconv.ParseUint(j.S, 10, 64); return v }
	switch j.T {
	case "nil", "":
		return nil
	case "i64":
		return pi()
	case "bool":
		return j.S == "true"
	case "str":
		return j.S
	case "li64":
		l := make([]int64, len(j.L))
		for k, e := range j.L {
			l[k], _ = strconv.ParseInt(e, 10, 64)
		}
		return l
	case "lstr":
		return append([]string{}, j.L...)
	case "int":
		return int(pi())
	case "i8":
		return int8(pi())
	case "i16":
		return int16(pi())
	case "i32":
		return int32(pi())
	case "u8":
		return uint8(pu())
	case "u16":
		return uint16(pu())
	case "u32":
		return uint32(pu())
	case "u64":
		return pu()
	case "lint":
		l := make([]int, len(j.L))
		for k, e := range j.L {
			l[k], _ = strconv.Atoi(e)
		}
		return l
	case "li32":
		l := make([]int32, len(j.L))
		for k, e := range j.L {
			v, _ := strconv.ParseInt(e, 10, 32)
			l[k] = int32(v)
		}
		return l
	case "time":
		p := strings.SplitN(j.S, ".", 2)
		s, _ := strconv.ParseInt(p[0], 10, 64)
		ns := 0
		if len(p) == 2 {
			ns, _ = strconv.Atoi(p[1])
		}
		return time.Unix(s, int64(ns)).UTC()
	case "dur":
		return time.Duration(pi())
	case "f64":
		f, _ := strconv.ParseFloat(j.S, 64)
		return f
	case "seti":
		m := map[int64]struct{}{}
		for _, e := range j.L {
			v, _ := strconv.ParseInt(e, 10, 64)
			m[v] = struct{}{}
		}
		return m
	case "sets":
		m := map[string]struct{}{}
		for _, e := range j.L {
			m[e] = struct{}{}
		}
		return m
	case "dne":
		return DNE
	}
	panic("model: cannot decode value of type " + j.T)
}

// V wraps a value so that it survives a JSON round trip inside case structs.
type V struct{ X interface{} }

func (v V) MarshalJSON() ([]byte, error) { return json.Marshal(EncVal(v.X)) }
func (v *V) UnmarshalJSON(b []byte) error {
	var j JV
	if err := json.Unmarshal(b, &j); err != nil {
		return err
	}
	v.X = DecVal(j)
	return nil
}

type jnode struct {
	K int     `json:"k"`
	N string  `json:"n,omitempty"`
	V *JV     `json:"v,omitempty"`
	C []*Node `json:"c,omitempty"`
	S string  `json:"src,omitempty"` // informational: rendered text of the root
}

func (n *Node) MarshalJSON() ([]byte, error) {
	j := jnode{K: int(n.Kind), N: n.Name, C: n.Kids}
	if n.Kind == KConst {
		v := EncVal(n.Val)
		j.V = &v
	}
	return json.Marshal(j)
}

func (n *Node) UnmarshalJSON(b []byte) error {
	var j jnode
	if err := json.Unmarshal(b, &j); err != nil {
		return err
	}
	n.Kind, n.Name, n.Kids = Kind(j.K), j.N, j.C
	if j.V != nil {
		n.Val = DecVal(*j.V)
	}
	return nil
}
