package model

import (
	"fmt"
	"strconv"
	"strings"
	"unicode"
)

// ---- independent lexer (token rules as stated by C14)

type Tok struct {
	Kind byte   // '(' ')' '[' ']' ',' 's' string literal, 'a' atom, 'u' unterminated string
	Text string // source text of the token (string literals with their quotes)
}

func isDelim(r rune) bool { return strings.ContainsRune("()[];,", r) }

// Lex splits s into tokens and comments. Comments are returned with trailing
// white space removed. An unterminated string literal is one pseudo-token
// running to the end of the input (trailing white space removed).
func Lex(s string) (toks []Tok, comments []string) {
	r := []rune(s)
	i := 0
	for i < len(r) {
		c := r[i]
		switch {
		case unicode.IsSpace(c):
			i++
		case c == ';':
			j := i
			for j < len(r) && r[j] != '\n' {
				j++
			}
			comments = append(comments, strings.TrimRightFunc(string(r[i:j]), unicode.IsSpace))
			i = j
		case c == '"':
			j := i + 1
			for j < len(r) && r[j] != '"' {
				j++
			}
			if j == len(r) {
				toks = append(toks, Tok{Kind: 'u', Text: strings.TrimRightFunc(string(r[i:]), unicode.IsSpace)})
				return
			}
			toks = append(toks, Tok{Kind: 's', Text: string(r[i : j+1])})
			i = j + 1
		case c == '(' || c == ')' || c == '[' || c == ']' || c == ',':
			toks = append(toks, Tok{Kind: byte(c), Text: string(c)})
			i++
		default:
			j := i
			for j < len(r) && !unicode.IsSpace(r[j]) && !isDelim(r[j]) {
				j++
			}
			toks = append(toks, Tok{Kind: 'a', Text: string(r[i:j])})
			i = j
		}
	}
	return
}

// LexAll is Lex with the comments left in place as tokens of kind ';'
// (text with trailing white space removed).
func LexAll(s string) []Tok {
	r := []rune(s)
	var out []Tok
	i := 0
	for i < len(r) {
		c := r[i]
		switch {
		case unicode.IsSpace(c):
			i++
		case c == ';':
			j := i
			for j < len(r) && r[j] != '\n' {
				j++
			}
			out = append(out, Tok{Kind: ';', Text: strings.TrimRightFunc(string(r[i:j]), unicode.IsSpace)})
			i = j
		case c == '"':
			j := i + 1
			for j < len(r) && r[j] != '"' {
				j++
			}
			if j == len(r) {
				return append(out, Tok{Kind: 'u', Text: strings.TrimRightFunc(string(r[i:]), unicode.IsSpace)})
			}
			out = append(out, Tok{Kind: 's', Text: string(r[i : j+1])})
			i = j + 1
		case c == '(' || c == ')' || c == '[' || c == ']' || c == ',':
			out = append(out, Tok{Kind: byte(c), Text: string(c)})
			i++
		default:
			j := i
			for j < len(r) && !unicode.IsSpace(r[j]) && !isDelim(r[j]) {
				j++
			}
			out = append(out, Tok{Kind: 'a', Text: string(r[i:j])})
			i = j
		}
	}
	return out
}

func TokTexts(t []Tok) []string {
	out := make([]string, len(t))
	for i, x := range t {
		out[i] = x.Text
	}
	return out
}

// ---- reader for Dump output (prefix notation)

// ReadDump parses a prefix-notation program (as printed by Dump) into a tree.
// Atoms that are neither integers nor true/false are variables.
func ReadDump(s string) (n *Node, err error) {
	defer func() {
		if r := recover(); r != nil {
			n, err = nil, fmt.Errorf("read dump: %v in %q", r, s)
		}
	}()
	toks, comments := Lex(s)
	if len(comments) != 0 {
		panic("comment in dump")
	}
	p := &dp{toks: toks}
	n = p.expr()
	if p.i != len(toks) {
		panic("trailing tokens")
	}
	return n, nil
}

type dp struct {
	toks []Tok
	i    int
}

func (p *dp) peek() Tok {
	if p.i >= len(p.toks) {
		panic("unexpected end")
	}
	return p.toks[p.i]
}

func (p *dp) eat(k byte) {
	if p.peek().Kind != k {
		panic("expected " + string(rune(k)) + " got " + p.peek().Text)
	}
	p.i++
}

func atomNode(a string) *Node {
	switch a {
	case "true":
		return Const(true)
	case "false":
		return Const(false)
	}
	if v, err := strconv.ParseInt(a, 10, 64); err == nil {
		return Const(v)
	}
	return Var(a)
}

func strOf(t Tok) string { return t.Text[1 : len(t.Text)-1] }

func (p *dp) expr() *Node {
	t := p.peek()
	switch t.Kind {
	case 's':
		p.i++
		return Const(strOf(t))
	case 'a':
		p.i++
		return atomNode(t.Text)
	case '(':
		p.i++
		nx := p.peek()
		switch nx.Kind {
		case ')':
			p.i++
			return Const([]string{})
		case 's':
			l := []string{}
			for p.peek().Kind == 's' {
				l = append(l, strOf(p.peek()))
				p.i++
			}
			p.eat(')')
			return Const(l)
		case 'a':
			if _, err := strconv.ParseInt(nx.Text, 10, 64); err == nil {
				l := []int64{}
				for p.peek().Kind == 'a' {
					v, err := strconv.ParseInt(p.peek().Text, 10, 64)
					if err != nil {
						panic("mixed list")
					}
					l = append(l, v)
					p.i++
				}
				p.eat(')')
				return Const(l)
			}
			p.i++
			n := &Node{Kind: KOp, Name: nx.Text}
			for p.peek().Kind != ')' {
				n.Kids = append(n.Kids, p.expr())
			}
			p.eat(')')
			if n.Name == "if" {
				n.Kind = KIf
				if len(n.Kids) != 3 {
					panic("if arity")
				}
			}
			return n
		}
	}
	panic("unexpected token " + t.Text)
}

// ---- infix renderer

// InfixPrec is the precedence table stated by C15; 100 = call syntax.
func InfixPrec(op string) int {
	switch op {
	case "*", "/", "%":
		return 8
	case "+", "-":
		return 7
	case "!":
		return 6
	case "=", "==", "!=", "<", ">", "<=", ">=":
		return 5
	case "&", "&&":
		return 4
	case "|", "||":
		return 3
	}
	return 100
}

// IsInfixForm: the node is written with operator syntax (a op b / ! a).
func IsInfixForm(n *Node) bool {
	if n.Kind != KOp {
		return false
	}
	p := InfixPrec(n.Name)
	if p == 100 {
		return false
	}
	if p == 6 {
		return len(n.Kids) == 1
	}
	return len(n.Kids) == 2
}

func renderInfixVal(v interface{}) string {
	s := RenderVal(v)
	switch v.(type) {
	case []int64, []string:
		return "[" + s[1:len(s)-1] + "]"
	}
	return s
}

// InfixOpts steers redundancy; Extra(i) says whether to wrap the i-th
// candidate position in redundant parentheses, Tight(i) whether to write
// "!x" without a space (only before identifiers).
type InfixOpts struct {
	Extra func() bool
	Tight func() bool
}

// RenderInfix writes the tree in infix notation with minimal parentheses by
// the precedence table (a child is parenthesised iff it binds looser than its
// parent, or equally and it is the right operand), plus optional redundant ones.
func RenderInfix(n *Node, o InfixOpts) string {
	extra := func() bool { return o.Extra != nil && o.Extra() }
	wrap := func(s string) string {
		if extra() {
			return "(" + s + ")"
		}
		return s
	}
	var rec func(n *Node) string
	rec = func(n *Node) string {
		switch n.Kind {
		case KConst:
			if n.Name != "" {
				return wrap(n.Name)
			}
			return wrap(renderInfixVal(n.Val))
		case KVar:
			return wrap(n.Name)
		case KIf:
			return wrap("if(" + rec(n.Kids[0]) + ", " + rec(n.Kids[1]) + ", " + rec(n.Kids[2]) + ")")
		}
		if !IsInfixForm(n) {
			parts := make([]string, len(n.Kids))
			for i, k := range n.Kids {
				parts[i] = rec(k)
			}
			return wrap(n.Name + "(" + strings.Join(parts, ", ") + ")")
		}
		p := InfixPrec(n.Name)
		sub := func(k *Node, right bool) string {
			s := rec(k)
			if IsInfixForm(k) {
				kp := InfixPrec(k.Name)
				// a `!` directly under `!` or under a tighter operator is
				// parenthesised: the precedence table alone does not say
				// whether `! ! a` / `a * ! b` are well formed.
				if kp < p || (kp == p && (right || p == 6)) || (kp == 6 && p > 6) {
					return "(" + s + ")"
				}
			}
			return s
		}
		if p == 6 {
			k := n.Kids[0]
			s := sub(k, true)
			if (k.Kind == KVar || (k.Kind == KConst && k.Name != "")) && !strings.HasPrefix(s, "(") && o.Tight != nil && o.Tight() {
				return wrap("!" + s)
			}
			return wrap("! " + s)
		}
		return wrap(sub(n.Kids[0], false) + " " + n.Name + " " + sub(n.Kids[1], true))
	}
	return rec(n)
}
