module verifharness

go 1.23

require (
	github.com/onheap/eval v0.0.0
	pgregory.net/rapid v1.3.0
)

replace github.com/onheap/eval => /repo
